"""C20 -- tensor and mask utilities obey their algebraic specifications (E1 product explorer).

Every helper is driven over the complete product of a small shape / argument alphabet and compared
with a pure-Python reference written with nested loops over python lists; arguments are checked
for immutability by value and by tensor version counter.
"""
import itertools
import math
from unittest import mock

from mc import common
from mc.common import bump, new_result, violation

import numpy as np
import torch
from nflows import utils
from nflows.utils import torchutils as tu
from nflows.utils import typechecks as tc

PROPERTY = "C20"
RULE = (
    "full Cartesian product: all tensor shapes with <=3 dims of sizes 1..3 (39 shapes) x counts 1..3 x dtype x "
    "contiguous/non-contiguous layout for tile/repeat_rows/split/merge/sum_except_batch; all sorted edge vectors "
    "over a 5-value alphabet (1..4 bins) x inputs on edges/ulp-neighbours/mid-points for searchsorted; sign/magnitude "
    "alphabet for cbrt; all integer matrices over a small alphabet with non-zero determinant for logabsdet plus (shifted) diagonal matrices +-c of sizes 1..400 in both dtypes (determinant outside the dtype's range); features "
    "1..8 and every multinomial answer for the mask constructors; a type alphabet for the predicates. A case is "
    "non-trivial when the reference result has >1 element or the argument is illegal (exception contract)."
)
ASSUMPTIONS = [
    "pure-Python nested-loop reference implementations are the specification",
    "torch.multinomial is replaced by a seam that enumerates its possible answers",
    "value alphabets are finite (listed in bounds)",
]


def bounds(tier, seed):
    return {
        "shapes": "all with <=3 dims of sizes 1..3",
        "counts": [1, 2, 3],
        "edge_alphabet": EDGE_ALPHA,
        "det_alphabet_2x2": DET_ALPHA2,
        "det_alphabet_3x3": DET_ALPHA3[tier],
        "mask_features": "1..8",
    }


SHAPES = [s for d in (1, 2, 3) for s in itertools.product((1, 2, 3), repeat=d)]
EDGE_ALPHA = [-3.0, -1.0, 0.0, 0.25, 1.0, 3.0, 32.0]
DET_ALPHA2 = [-2, -1, 0, 1, 2]
DET_ALPHA3 = {"quick": [-1, 0, 2], "thorough": [-2, -1, 0, 1]}


def mk(shape, dtype, layout):
    n = int(np.prod(shape))
    if layout == "contig":
        x = (torch.arange(n, dtype=torch.float64) * 1.5 - 2).to(dtype).reshape(shape)
    elif layout == "transposed":  # non-contiguous view of a bigger base
        base = (torch.arange(n * 2, dtype=torch.float64) * 1.5 - 2).to(dtype).reshape(*shape, 2)
        x = base[..., 0]
    else:
        raise ValueError(layout)
    return x


def nested(x):
    return x.tolist()


def flat(l):
    if isinstance(l, list):
        out = []
        for e in l:
            out.extend(flat(e))
        return out
    return [l]


class Guard:
    """value + version-counter immutability monitor for tensor arguments"""

    def __init__(self, **tensors):
        self.t = tensors
        self.snap = {k: (v.clone(), v._version) for k, v in tensors.items()}

    def changed(self):
        out = []
        for k, v in self.t.items():
            c, ver = self.snap[k]
            if v.shape != c.shape or not torch.equal(v, c):
                out.append((k, "value"))
            elif v._version != ver:
                out.append((k, "version"))
        return out


def eq_list(a, b, tol=0.0):
    fa, fb = flat(a), flat(b)
    if len(fa) != len(fb):
        return False
    for u, v in zip(fa, fb):
        if isinstance(u, float) or isinstance(v, float):
            if not (abs(u - v) <= tol * max(1.0, abs(v))):
                return False
        elif u != v:
            return False
    return True


def shape_of(l):
    s = []
    while isinstance(l, list):
        s.append(len(l))
        l = l[0] if l else None
    return s


# ----------------------------------------------------------------------------- case checkers


def check_case(case):
    """returns list of (key, msg)"""
    fn = case["fn"]
    out = []
    V = lambda cell, sym, msg: out.append(("utils.%s|%s|%s" % (fn, cell, sym), msg))
    dt = {"float64": torch.float64, "float32": torch.float32, "int64": torch.int64}

    if fn in ("tile", "repeat_rows", "merge_leading_dims", "split_leading_dim", "sum_except_batch"):
        x = mk(tuple(case["shape"]), dt[case["dtype"]], case["layout"])
        g = Guard(x=x)
        ref_in = nested(x)
        n = case["n"]
        try:
            if fn == "tile":
                y = tu.tile(x, n)
                ref = [v for v in flat(ref_in) for _ in range(n)]
            elif fn == "repeat_rows":
                y = tu.repeat_rows(x, n)
                ref = [row for row in ref_in for _ in range(n)]
            elif fn == "merge_leading_dims":
                y = tu.merge_leading_dims(x, n)
                ref = ref_in
                for _ in range(n - 1):
                    ref = [e for sub in ref for e in sub]
            elif fn == "split_leading_dim":
                a, b = case["split"]
                y = tu.split_leading_dim(x, [a, b])
                ref = [[ref_in[i * b + j] for j in range(b)] for i in range(a)]
                # mutually inverse with merge
                back = tu.merge_leading_dims(y, 2)
                if back.shape != x.shape or not torch.equal(back, x):
                    V("roundtrip", "merge(split(x)) != x", "merge_leading_dims(split_leading_dim(x,%s),2) != x" % ([a, b],))
            elif fn == "sum_except_batch":
                y = tu.sum_except_batch(x, n)

                def red(l, depth):
                    if depth == 0:
                        return sum(flat(l))
                    return [red(e, depth - 1) for e in l]

                ref = red(ref_in, n)
        except Exception as e:
            V("legal-args", "raises", "%s(shape=%s,%s) raised %s: %s" % (fn, case["shape"], n, type(e).__name__, e))
            return out
        yl = nested(y)
        ref_shape = shape_of(ref) if isinstance(ref, list) else []
        if list(y.shape) != ref_shape:
            cell = "no-non-batch-dims" if (fn == "sum_except_batch" and n == len(case["shape"])) else "shape"
            V(cell, "wrong shape", "%s(shape=%s, n=%s): result shape %s, reference %s" % (fn, case["shape"], n, list(y.shape), ref_shape))
        elif not eq_list(yl, ref, 1e-12):
            V("values", "wrong values", "%s(shape=%s, n=%s, %s): %s != reference %s" % (fn, case["shape"], n, case["layout"], yl, ref))
        if y.dtype != x.dtype:
            V("dtype", "dtype changed", "%s: result dtype %s for input %s" % (fn, y.dtype, x.dtype))
        for k, what in g.changed():
            V("immutability", "argument modified (%s)" % what, "%s modified its argument %s" % (fn, k))
        return out

    if fn == "illegal":
        x = mk((2, 3), torch.float64, "contig")
        name, arg, exc = case["name"], case["arg"], case["exc"]
        arg = {"none": None}.get(arg, arg) if isinstance(arg, str) and arg == "none" else arg
        try:
            getattr(tu, name)(x, arg)
            V("illegal-args:%s" % name, "accepted", "%s(x, %r) did not raise %s" % (name, arg, exc))
        except Exception as e:
            if type(e).__name__ != exc:
                V("illegal-args:%s" % name, "wrong exception", "%s(x, %r) raised %s, documented %s" % (name, arg, type(e).__name__, exc))
        return out

    if fn == "searchsorted":
        edges = case["edges"]
        dtype = dt[case["dtype"]]
        inputs = case["inputs"]
        e = torch.tensor(edges, dtype=dtype)
        x = torch.tensor(inputs, dtype=dtype)
        el = e.tolist()
        xl = x.tolist()
        bl = e[None, :].expand(len(inputs), -1).clone() if case["batched"] else e.clone()
        bl0 = bl.clone()
        g = Guard(inputs=x)
        ver = bl._version
        try:
            idx = tu.searchsorted(bl, x)
        except Exception as ex:
            V("legal-args", "raises", "searchsorted raised %s" % ex)
            return out
        nb = len(el) - 1
        ref = []
        for v in xl:
            # half-open bins [e_k, e_{k+1}); the last bin also contains its right edge
            k = sum(1 for ed in el if v >= ed) - 1
            if v == el[-1]:
                k = nb - 1
            ref.append(k)
        if idx.tolist() != ref:
            V("edges/mid-points", "wrong bin", "searchsorted(edges=%s, inputs=%s) = %s, reference %s" % (el, xl, idx.tolist(), ref))
        if not torch.equal(bl, bl0):
            V("immutability", "argument modified (value)", "searchsorted changed bin_locations from %s to %s" % (bl0.tolist(), bl.tolist()))
        elif bl._version != ver:
            V("immutability", "argument modified (version)", "searchsorted wrote to bin_locations in place")
        for k, what in g.changed():
            V("immutability", "argument modified (%s)" % what, "searchsorted modified %s" % k)
        return out

    if fn == "cbrt":
        x = torch.tensor(case["xs"], dtype=dt[case["dtype"]])
        g = Guard(x=x)
        y = tu.cbrt(x)
        tol = 1e-12 if case["dtype"] == "float64" else 2e-6
        for xv, yv in zip(x.tolist(), y.tolist()):
            ref = math.copysign(abs(xv) ** (1.0 / 3.0), xv) if xv != 0 else 0.0
            if not (yv == yv) or abs(yv - ref) > tol * max(abs(ref), 1e-300):
                cell = "zero" if xv == 0 else ("negative" if xv < 0 else "positive")
                V(cell, "wrong value", "cbrt(%r) = %r, reference %r" % (xv, yv, ref))
        for k, what in g.changed():
            V("immutability", "argument modified (%s)" % what, "cbrt modified %s" % k)
        return out

    if fn == "logabsdet":
        m = case["m"]
        n = len(m)
        if n == 2:
            det = m[0][0] * m[1][1] - m[0][1] * m[1][0]
        else:
            det = (
                m[0][0] * (m[1][1] * m[2][2] - m[1][2] * m[2][1])
                - m[0][1] * (m[1][0] * m[2][2] - m[1][2] * m[2][0])
                + m[0][2] * (m[1][0] * m[2][1] - m[1][1] * m[2][0])
            )
        x = torch.tensor(m, dtype=torch.float64)
        g = Guard(x=x)
        r = float(tu.logabsdet(x))
        ref = math.log(abs(det))
        if not abs(r - ref) <= 1e-10:
            V("det<0" if det < 0 else "det>0", "wrong value", "logabsdet(%s) = %r, reference log|%d| = %r" % (m, r, det, ref))
        for k, what in g.changed():
            V("immutability", "argument modified (%s)" % what, "logabsdet modified %s" % k)
        return out

    if fn == "logabsdet_diag":
        # |det| itself leaves the dtype's range for these sizes while log|det| = n log c is harmless ("match their mathematical definitions")
        n, c, dt, shift = case["n"], case["c"], {"float32": torch.float32, "float64": torch.float64}[case["dtype"]], case["shift"]
        d = torch.tensor([c * (1.0 if i % 2 == 0 else -1.0) for i in range(n)], dtype=dt)
        x = torch.diag(d)
        if shift:
            x = torch.roll(x, 1, dims=0)  # a cyclic row permutation: |det| unchanged
        g = Guard(x=x)
        try:
            r = float(tu.logabsdet(x))
        except Exception as e:
            V("large", "raises %s" % type(e).__name__, "logabsdet(%dx%d, |entries| %g, %s) raised %s" % (n, n, c, case["dtype"], type(e).__name__))
            return out
        ref = n * math.log(c)
        if not abs(r - ref) <= (1e-10 if dt == torch.float64 else 1e-5) * (1 + abs(ref)):
            V("large", "wrong value", "logabsdet of the %dx%d %s matrix with entries +-%g on a (shifted) diagonal = %r, reference n log c = %r" % (n, n, case["dtype"], c, r, ref))
        for k, what in g.changed():
            V("immutability", "argument modified (%s)" % what, "logabsdet modified %s" % k)
        return out

    if fn == "mask":
        f = case["features"]
        kind = case["kind"]
        for fname in ("create_alternating_binary_mask", "create_mid_split_binary_mask", "create_random_binary_mask"):
            cc = getattr(getattr(tu, fname), "cache_clear", None)
            if cc is not None:
                cc()  # a memoising wrapper keeps state between cases: every case starts from an empty memo, so that findings replay
        half = (f + 1) // 2
        if kind == "alternating":
            m = tu.create_alternating_binary_mask(f, even=case["even"])
            ref = [1 if (i % 2 == (0 if case["even"] else 1)) else 0 for i in range(f)]
        elif kind == "mid_split":
            m = tu.create_mid_split_binary_mask(f)
            ref = [1 if i < half else 0 for i in range(f)]
        else:
            ans = case["answer"]
            calls = []

            def fake_multinomial(input, num_samples, replacement=False, **kw):
                calls.append((tuple(input.shape), num_samples, replacement))
                return torch.tensor(ans[:num_samples], dtype=torch.long)

            with mock.patch.object(torch, "multinomial", fake_multinomial):
                m = tu.create_random_binary_mask(f)
            ref = [1 if i in ans else 0 for i in range(f)]
            if calls != [((f,), half, False)]:
                V("random", "sampler contract", "create_random_binary_mask(%d) called multinomial as %s, expected one draw of %d of %d without replacement" % (f, calls, half, f))
        if m.tolist() != ref or m.dim() != 1:
            V(kind, "wrong pattern", "%s mask(features=%d%s) = %s, reference %s" % (kind, f, (", even=%s" % case.get("even")) if kind == "alternating" else "", m.tolist(), ref))
        if int(m.sum()) != sum(ref):
            V(kind, "wrong count", "mask has %d ones, stated %d" % (int(m.sum()), sum(ref)))
        if m.dtype not in (torch.uint8, torch.bool):
            V(kind, "dtype", "mask dtype %s" % m.dtype)
        if kind in ("alternating", "mid_split"):
            # the caller owns the returned mask (nflows itself flips masks in place between coupling layers): editing it must not
            # change what the next call with the same arguments returns
            with torch.no_grad():
                m.copy_(1 - m)
            m2 = tu.create_alternating_binary_mask(f, even=case["even"]) if kind == "alternating" else tu.create_mid_split_binary_mask(f)
            if m2.tolist() != ref:
                V(kind, "result shared between calls", "%s mask(features=%d): after the first result was flipped in place, the next call returns %s, reference %s" % (kind, f, m2.tolist(), ref))
        return out

    if fn == "temperature":
        mv, bound = case["max_value"], case["bound"]
        t = tu.get_temperature(mv, bound)
        tv = float(t)
        ideal = -(1.0 / mv) * (math.log1p(-bound) - math.log(bound))
        ref = min(ideal, 1.0)
        if not abs(tv - ref) <= 1e-5 * max(1.0, ref):
            V("grid", "wrong value", "get_temperature(%r,%r) = %r, reference %r" % (mv, bound, tv, ref))
        return out

    if fn == "predicate":
        name = case["name"]
        val = decode_val(case["val"])
        try:
            r = getattr(tc, name)(val)
        except Exception as e:
            V("non-int:%s" % case["val"][0], "raises", "%s(%r) raised %s" % (name, val, type(e).__name__))
            return out
        kind = case["val"][0]
        if r not in (True, False, 0, 1) or not isinstance(r, (bool, int)):
            V(kind, "non-boolean", "%s(%r) returned %r" % (name, val, r))
            return out
        if kind == "int":
            ref = {
                "is_bool": False,
                "is_int": True,
                "is_positive_int": val > 0,
                "is_nonnegative_int": val >= 0,
                "is_power_of_two": val > 0 and bin(val).count("1") == 1,
            }[name]
            if bool(r) != ref:
                V("int", "wrong answer", "%s(%r) = %r, reference %r" % (name, val, r, ref))
        elif kind == "bool":
            if name == "is_bool" and r is not True:
                V("bool", "wrong answer", "is_bool(%r) = %r" % (val, r))
        elif kind in ("float", "str", "none", "list"):
            if bool(r):
                V(kind, "wrong answer", "%s(%r) = %r for a non-int/non-bool argument" % (name, val, r))
        # numpy ints: only "does not raise, returns a boolean" is asserted
        return out

    if fn == "misc":
        lin = torch.nn.Linear(case["a"], case["b"])
        n = utils.get_num_parameters(lin)
        if n != case["a"] * case["b"] + case["b"]:
            V("linear", "wrong count", "get_num_parameters(Linear(%d,%d)) = %r" % (case["a"], case["b"], n))
        x = mk((2, 3), torch.float64, "contig").requires_grad_(True)
        a = utils.tensor2numpy(x)
        if a.tolist() != x.tolist():
            V("tensor2numpy", "wrong values", "tensor2numpy differs")
        return out

    raise ValueError(fn)


def decode_val(v):
    kind, payload = v
    if kind in ("int", "float", "str", "bool"):
        return payload
    if kind == "none":
        return None
    if kind == "list":
        return list(payload)
    if kind == "npint":
        return np.int64(payload)
    raise ValueError(kind)


# ----------------------------------------------------------------------------- enumeration


def gen_cases(group, tier):
    dtypes = ["float64", "int64"] if tier == "quick" else ["float64", "float32", "int64"]
    layouts = ["contig", "transposed"]
    if group == "reshape":
        for fn in ("tile", "repeat_rows"):
            for shape in SHAPES:
                for n in (1, 2, 3):
                    for d in dtypes:
                        for lay in layouts:
                            yield {"fn": fn, "shape": shape, "n": n, "dtype": d, "layout": lay}
        for shape in SHAPES:
            for n in range(1, len(shape) + 1):
                for d in dtypes:
                    for lay in layouts:
                        yield {"fn": "merge_leading_dims", "shape": shape, "n": n, "dtype": d, "layout": lay}
        for a in (1, 2, 3):
            for b in (1, 2, 3):
                for rest in [()] + [s for s in SHAPES if len(s) <= 2]:
                    for d in dtypes:
                        for lay in layouts:
                            yield {"fn": "split_leading_dim", "shape": (a * b,) + tuple(rest), "n": 0, "split": [a, b], "dtype": d, "layout": lay}
        for shape in SHAPES:
            for n in range(0, len(shape) + 1):
                for d in dtypes:
                    for lay in layouts:
                        yield {"fn": "sum_except_batch", "shape": shape, "n": n, "dtype": d, "layout": lay}
        ill = [0, -1, 2.0, "3", "none"]
        for name in ("tile", "repeat_rows", "merge_leading_dims"):
            for a in ill:
                yield {"fn": "illegal", "name": name, "arg": a, "exc": "TypeError"}
        yield {"fn": "illegal", "name": "merge_leading_dims", "arg": 3, "exc": "ValueError"}
        for a in (-1, 1.0, "1"):
            yield {"fn": "illegal", "name": "sum_except_batch", "arg": a, "exc": "TypeError"}
    elif group == "searchsorted":
        for nb in (1, 2, 3, 4):
            for edges in itertools.combinations(EDGE_ALPHA, nb + 1):
                for d in ("float64", "float32"):
                    e = torch.tensor(edges, dtype={"float64": torch.float64, "float32": torch.float32}[d])
                    inputs = []
                    for k in range(len(edges)):
                        ek = e[k]
                        if k > 0:
                            inputs.append(float(torch.nextafter(ek, e[0] - 10)))
                        inputs.append(float(ek))
                        if k < len(edges) - 1:
                            inputs.append(float(torch.nextafter(ek, e[-1] + 10)))
                            inputs.append(float((e[k] + e[k + 1]) / 2))
                    for batched in (False, True):
                        yield {"fn": "searchsorted", "edges": list(edges), "inputs": inputs, "dtype": d, "batched": batched}
    elif group == "cbrt":
        xs = [0.0, 1e-300, -1e-300, 1e-30, -1e-30, 1.0, -1.0, 8.0, -8.0, 27.0, -0.001, 2.0, -2.0, 1e30, -1e30]
        yield {"fn": "cbrt", "xs": xs, "dtype": "float64"}
        yield {"fn": "cbrt", "xs": [x for x in xs if abs(x) in (0.0, 1e-30, 1.0, 8.0, 27.0, 0.001, 2.0, 1e30)], "dtype": "float32"}
        for x in xs:
            yield {"fn": "cbrt", "xs": [x], "dtype": "float64"}
    elif group == "logabsdet2":
        for n in (1, 2, 5, 30, 60, 150, 400):
            for c in (1e-2, 1e2, 1e-4, 3.0, 0.5):
                for dtn in ("float32", "float64"):
                    for shift in (False, True):
                        yield {"fn": "logabsdet_diag", "n": n, "c": c, "dtype": dtn, "shift": shift}
        for vals in itertools.product(DET_ALPHA2, repeat=4):
            m = [list(vals[:2]), list(vals[2:])]
            if m[0][0] * m[1][1] - m[0][1] * m[1][0] != 0:
                yield {"fn": "logabsdet", "m": m}
    elif group.startswith("logabsdet3"):
        part = int(group.split(":")[1])
        alpha = DET_ALPHA3[tier]
        for i, vals in enumerate(itertools.product(alpha, repeat=9)):
            if i % 8 != part:
                continue
            m = [list(vals[0:3]), list(vals[3:6]), list(vals[6:9])]
            det = (
                m[0][0] * (m[1][1] * m[2][2] - m[1][2] * m[2][1])
                - m[0][1] * (m[1][0] * m[2][2] - m[1][2] * m[2][0])
                + m[0][2] * (m[1][0] * m[2][1] - m[1][1] * m[2][0])
            )
            if det != 0:
                yield {"fn": "logabsdet", "m": m}
    elif group == "masks":
        for f in range(1, 9):
            for even in (True, False):
                yield {"fn": "mask", "kind": "alternating", "features": f, "even": even}
            yield {"fn": "mask", "kind": "mid_split", "features": f}
            half = (f + 1) // 2
            for comb in itertools.combinations(range(f), half):
                yield {"fn": "mask", "kind": "random", "features": f, "answer": list(comb)}
                yield {"fn": "mask", "kind": "random", "features": f, "answer": list(reversed(comb))}
    elif group == "misc":
        for mv in (0.5, 1.0, 5.0, 6.9, 7.0, 10.0, 100.0, 1e4):
            for b in (0.6, 0.9, 1 - 1e-3):
                yield {"fn": "temperature", "max_value": mv, "bound": b}
        vals = (
            [("int", v) for v in (-4, -1, 0, 1, 2, 3, 4, 6, 8, 1024, 1023, 2 ** 40)]
            # every power of two up to 2**70 with both neighbours and the sum of two powers: Python ints are unbounded, and an
            # implementation through floating point (log2, float division) goes wrong from 2**47 / 2**53 upwards
            + [("int", v) for k in range(3, 71) for v in (2 ** k - 1, 2 ** k, 2 ** k + 1, 2 ** k + 2 ** (k // 2), -(2 ** k))]
            + [("float", v) for v in (0.0, 1.0, 2.0, 2.5, -1.0, float("nan"), float("inf"))]
            + [("str", v) for v in ("", "3", "a")]
            + [("none", None), ("list", [1]), ("bool", True), ("bool", False), ("npint", 4), ("npint", -1)]
        )
        for name in ("is_bool", "is_int", "is_positive_int", "is_nonnegative_int", "is_power_of_two"):
            for v in vals:
                yield {"fn": "predicate", "name": name, "val": list(v)}
        for a in (1, 2, 3):
            for b in (1, 2):
                yield {"fn": "misc", "a": a, "b": b}
    else:
        raise ValueError(group)


def units(tier, seed):
    return [(g, tier) for g in ["reshape", "searchsorted", "cbrt", "logabsdet2", "masks", "misc"] + ["logabsdet3:%d" % i for i in range(8)]]


def run_unit(unit):
    group, tier = unit
    res = new_result()
    for case in gen_cases(group, tier):
        res["evaluations"] += 1
        res["states"] += 1
        res["transitions"] += 1
        res["traces"] += 1
        vs = check_case(case)
        nontriv = True
        if case["fn"] in ("tile", "repeat_rows", "merge_leading_dims", "split_leading_dim", "sum_except_batch"):
            nontriv = int(np.prod(case["shape"])) > 1
        if nontriv:
            res["nontrivial"] += 1
        bump(res["outcomes"], case["fn"] + (":violation" if vs else ":ok"))
        for key, msg in vs:
            violation(res, key, case, msg)
        if len(res["samples"]) < 1:
            res["samples"].append(case)
    return res


def replay(case):
    return [{"key": k, "msg": m, "case": case} for k, m in check_case(case)]
