"""Deterministic midpoint quadrature on sinh-stretched grids (1-D and 2-D) with self-estimated error."""
import numpy as np
import torch


def sinh_grid(n, xmax, s=1.0, lo=None, hi=None):
    """midpoints x_i = s*sinh(u_i), weights w_i, covering [-xmax, xmax] (or [lo, hi] by an affine uniform grid)"""
    if lo is not None and hi is not None:
        du = (hi - lo) / n
        x = lo + du * (np.arange(n) + 0.5)
        return x, np.full(n, du)
    U = np.arcsinh(xmax / s)
    du = 2 * U / n
    u = -U + du * (np.arange(n) + 0.5)
    return s * np.sinh(u), s * np.cosh(u) * du


def integrate_1d(logp, n=2 ** 16, xmax=60.0, s=1.0, lo=None, hi=None, batch=2 ** 16):
    """logp: callable on a float64 torch tensor [m] -> [m] log densities. Returns (I_n, I_{n/2}, first moment)."""
    out = []
    for nn_ in (n, n // 2):
        x, w = sinh_grid(nn_, xmax, s, lo, hi)
        tot = 0.0
        mom = 0.0
        for i in range(0, nn_, batch):
            xt = torch.tensor(x[i : i + batch], dtype=torch.float64)
            with torch.no_grad():
                lp = logp(xt).double().numpy()
            p = np.exp(lp)
            p[~np.isfinite(p)] = 0.0 if np.all(lp[~np.isfinite(p)] < 0) else np.nan
            tot += float(np.sum(p * w[i : i + batch]))
            mom += float(np.sum(p * w[i : i + batch] * x[i : i + batch]))
        out.append((tot, mom))
    return out[0][0], out[1][0], out[0][1]


def integrate_2d(logp, n=512, xmax=40.0, s=1.0, box=None, batch=2 ** 18):
    """logp: callable on [m, 2] -> [m]. Returns (I_n, I_{n/2}, first moments [2])."""
    res = []
    for nn_ in (n, n // 2):
        if box is not None:
            (a0, b0), (a1, b1) = box
            x0, w0 = sinh_grid(nn_, 0, lo=a0, hi=b0)
            x1, w1 = sinh_grid(nn_, 0, lo=a1, hi=b1)
        else:
            x0, w0 = sinh_grid(nn_, xmax, s)
            x1, w1 = x0, w0
        X0, X1 = np.meshgrid(x0, x1, indexing="ij")
        W = np.outer(w0, w1).reshape(-1)
        P = np.stack([X0.reshape(-1), X1.reshape(-1)], axis=1)
        tot = 0.0
        mom = np.zeros(2)
        for i in range(0, P.shape[0], batch):
            xt = torch.tensor(P[i : i + batch], dtype=torch.float64)
            with torch.no_grad():
                lp = logp(xt).double().numpy()
            p = np.exp(lp)
            p[~np.isfinite(p)] = 0.0
            tot += float(np.sum(p * W[i : i + batch]))
            mom += (p * W[i : i + batch]) @ P[i : i + batch]
        res.append((tot, mom))
    return res[0][0], res[1][0], res[0][1]


def cdf_1d(logp, points, n=2 ** 15, xmax=60.0, s=1.0, lo=None, hi=None):
    """F(t) for each t in points (sorted or not) by cumulative midpoint sums on the sinh grid + linear interpolation"""
    x, w = sinh_grid(n, xmax, s, lo, hi)
    with torch.no_grad():
        p = np.exp(logp(torch.tensor(x, dtype=torch.float64)).double().numpy())
    p[~np.isfinite(p)] = 0.0
    c = np.cumsum(p * w)
    edges = np.concatenate([[x[0] - 0.5 * (x[1] - x[0])], 0.5 * (x[1:] + x[:-1]), [x[-1] + 0.5 * (x[-1] - x[-2])]])
    cc = np.concatenate([[0.0], c])
    return np.interp(points, edges, cc), float(c[-1])
