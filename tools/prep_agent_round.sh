#!/bin/bash
# prep_agent_round.sh <PID> <round> [N]: later-round prompt: lists the titles of all changes already kept for this property so that new ones differ
pid=$1; rnd=$2; n=${3:-3}; tag=${pid}r${rnd}
cp /verif/tools/agent_prompt.tmpl /tmp/wt/agent_prompt.tmpl 2>/dev/null
mkdir -p /tmp/wt
git -C /repo worktree add -q --detach /tmp/wt/$tag HEAD
/venv/bin/python - "$pid" "$n" "$tag" <<'PY'
import sys, json, glob
pid, n, tag = sys.argv[1:4]
for l in open('/verif/properties.jsonl'):
    p = json.loads(l)
    if p['id'] == pid:
        prop = "%s — %s\n\n%s\n\nQuantified over: %s\n" % (p['id'], p['title'], p['statement'], p['quantifier']['text'])
prev = []
for f in sorted(glob.glob('/verif/seeded/%s-*/meta.json' % pid)):
    m = json.load(open(f)); prev.append("- %s (%s)" % (m.get('title', '')[:160], ", ".join(m.get('files', []))[:80]))
t = open('/tmp/wt/agent_prompt.tmpl').read()
t = t.replace('__WT__', '/tmp/wt/' + tag).replace('__PROP__', prop).replace('__PID___out', tag + '_out').replace('__PID__', pid).replace('__N__', n)
t = t.replace("(7 tests in tests/transforms/linear_test.py::NaiveLinearTest and tests/utils/torchutils_test.py::test_random_orthogonal may ALREADY fail before your change because torch.qr was removed; ignore those; every other test must still pass)",
              "(on the clean tree all 154 tests pass; a few randomised spline tests are flaky on the clean tree too - about 1 run in 10 - so re-run once before blaming your change)")
t = t.replace("Make the %s mutants differ in kind and location." % n,
              "Make the %s mutants differ in kind and location.\n\nEarlier rounds already produced the following changes for this property. Do NOT repeat them or close variants of them; look for different mechanisms, different files/classes, different triggering conditions (rarely used but legal constructor arguments and argument types, other input shapes and dtypes, longer call sequences, modules nested in other modules, extreme but legal parameter values, save/load, training vs evaluation mode):\n%s" % (n, "\n".join(prev)))
open('/tmp/wt/%s.prompt.txt' % tag, 'w').write(t)
PY
echo prepared $tag
