#!/venv/bin/python
"""Seeded-change workflow (never touches /repo's working tree: uses a scratch git worktree under /tmp/mut).

  mutant.py verify <dir>            apply <dir>/patch.diff to a scratch worktree of /repo HEAD; run the pinned test suite,
                                    run <dir>/demo.py on the mutated and on the clean tree
  mutant.py check <dir> C10 [C01..] run the named checks (quick tier, or --tier thorough) with NFLOWS_SRC = mutated worktree
  mutant.py adopt <srcdir> <id>     copy patch.diff/demo.py/meta.json to /verif/seeded/<id>/
"""
import json
import os
import shutil
import subprocess
import sys
import time

V = os.path.dirname(os.path.dirname(os.path.abspath(__file__)))


def sh(cmd, **kw):
    return subprocess.run(cmd, shell=True, capture_output=True, text=True, **kw)


def scratch(patch):
    wt = "/tmp/mut/wt_%d_%d" % (os.getpid(), int(time.time() * 1000) % 100000)
    os.makedirs("/tmp/mut", exist_ok=True)
    r = sh("git -C /repo worktree add -q --detach %s HEAD" % wt)
    if r.returncode:
        raise SystemExit("worktree add failed: " + r.stderr)
    if patch:
        r = sh("git -C %s apply %s" % (wt, patch))
        if r.returncode:
            r2 = sh("git -C %s apply --3way %s" % (wt, patch))
            if r2.returncode:
                drop(wt)
                raise SystemExit("patch does not apply: " + r.stderr + r2.stderr)
    return wt


def drop(wt):
    sh("git -C /repo worktree remove --force %s" % wt)
    shutil.rmtree(wt, ignore_errors=True)
    sh("git -C /repo worktree prune")


def main():
    cmd = sys.argv[1]
    if cmd == "verify":
        d = os.path.abspath(sys.argv[2])
        wt = scratch(os.path.join(d, "patch.diff"))
        try:
            t = sh("%s/tools/baseline.py %s" % (V, wt))
            tests_ok = t.returncode == 0
            env = dict(os.environ, PYTHONPATH=wt, OMP_NUM_THREADS="1")
            dm = subprocess.run(["/venv/bin/python", os.path.join(d, "demo.py")], capture_output=True, text=True, env=env, cwd=d, timeout=900)
            env2 = dict(os.environ, PYTHONPATH="/repo", OMP_NUM_THREADS="1")
            dc = subprocess.run(["/venv/bin/python", os.path.join(d, "demo.py")], capture_output=True, text=True, env=env2, cwd=d, timeout=900)
            out = {"tests_pass_with_change": tests_ok, "tests_summary": t.stdout.strip().splitlines()[:4], "demo_on_mutant_exit": dm.returncode, "demo_on_clean_exit": dc.returncode,
                   "demo_mutant_tail": dm.stdout.strip().splitlines()[-2:], "demo_clean_tail": dc.stdout.strip().splitlines()[-2:],
                   "valid": bool(tests_ok and dm.returncode != 0 and dc.returncode == 0), "repo_head": sh("git -C /repo rev-parse --short HEAD").stdout.strip()}
            print(json.dumps(out, indent=1))
        finally:
            drop(wt)
    elif cmd == "check":
        d = os.path.abspath(sys.argv[2])
        args = sys.argv[3:]
        tier = "quick"
        if "--tier" in args:
            i = args.index("--tier")
            tier = args[i + 1]
            del args[i : i + 2]
        wt = scratch(os.path.join(d, "patch.diff"))
        res = {}
        try:
            for pid in args:
                env = dict(os.environ, NFLOWS_SRC=wt, VERIF_EVIDENCE_DIR="/tmp/mut/evidence")
                t0 = time.time()
                r = subprocess.run(["/venv/bin/python", "-m", "mc.check", pid, "--tier", tier], capture_output=True, text=True, env=env, cwd=V)
                lines = [l for l in r.stdout.splitlines() if l.startswith("VIOLATION-DETAIL")]
                res[pid] = {"exit": r.returncode, "violation_keys": len(lines), "first": [l[:300] for l in lines[:3]], "wall_s": round(time.time() - t0, 1)}
                if r.returncode == 3:
                    res[pid]["stderr"] = r.stderr[-800:]
            print(json.dumps(res, indent=1))
        finally:
            drop(wt)
    elif cmd == "adopt":
        src, mid = os.path.abspath(sys.argv[2]), sys.argv[3]
        dst = os.path.join(V, "seeded", mid)
        os.makedirs(dst, exist_ok=True)
        for f in ("patch.diff", "demo.py", "meta.json"):
            shutil.copy(os.path.join(src, f), os.path.join(dst, f))
        print("adopted", dst)


if __name__ == "__main__":
    main()
