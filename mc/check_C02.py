"""C02 -- inverse undoes forward in both orders and returns the negated log-abs-det (E1 product explorer)."""
import numpy as np
import torch

from mc import catalog as C
from mc.common import bump, new_result
from mc.harness import Caller, build_case, dev_signature, knots_for
from mc.numerics import cells_for, base_row, fd_jacobians, rows_1dev, rows_2dev, sweep_coords

PROPERTY = "C02"
RULE = (
    "as C01 (subject x config<=k deviations x pattern x 1-deviation rows) on the input side, plus output-side rows: every "
    "coordinate of y swept through the cell alphabet of the *codomain* (output knots obtained by pushing the input knots "
    "through the real forward, end-points of [bottom,top], tail junction, far tails). For each row both orders are run: "
    "x -> forward -> inverse and y -> inverse -> forward. Non-trivial = the row has a non-interior cell or the map moved "
    "the point by more than 1e-6."
)
ASSUMPTIONS = [
    "round-trip tolerance = (1e-9*scale + declared constant) * conditioning, conditioning = max(1, ||J^-1||) resp. max(1, ||J||) from a finite-difference Jacobian at the point",
    "declared constants: cubic spline quadratic_threshold=1e-3 / eps=1e-5, UMNN bisection on [-20,20] with 25 halvings (2.4e-6), Sigmoid clamp eps=1e-6 (cells within the clamp region are excluded)",
    "exact maps (permutations, squeeze, identity) must round-trip bit for bit",
    "float64, eval mode; finite parameter and input alphabets",
]


def bounds(tier, seed):
    return {"config_deviations": 1 if tier == "quick" else 2, "rows": "input-side and output-side 1-deviation rows" + (" + 2-deviation" if tier == "thorough" else ""), "subjects": len([s for s in C.SUBJECTS.values() if s.has_inverse])}


def decl_inverse(s, cfg):
    """declared approximation of inverse(.) in input units"""
    n = s.name
    if "Cubic" in n or n == "splinefn_cubic":
        lo, hi = s.domain(cfg)
        w = (hi - lo) if lo is not None else 2 * float(cfg.get("tb") or 1.0)
        return 1e-3 * w  # quadratic_threshold: the cubic term a*alpha^3 with |a| < 1e-3 is dropped
    if s.kind == "umnn":
        return 4e-6
    return 0.0


def jac(call, x, dom, inverse=False):
    f = (lambda X: call.inv(X)[0]) if inverse else (lambda X: call.fwd(X)[0])
    try:
        fd = fd_jacobians(f, x, dom, h_rel=5e-6)
        J = 0.5 * (fd["Jl"] + fd["Jr"])
        if not np.all(np.isfinite(J)):
            return None
        return J
    except Exception:
        return None


def norm2(J):
    try:
        return float(np.linalg.norm(J, 2))
    except Exception:
        return float("inf")


def check_row(s, cfg, m, row, tag, side, call):
    """side 'x': inverse(forward(x)) ; side 'y': forward(inverse(y)). returns (violations, info)"""
    out = []
    info = {"nontrivial": tag not in ("base", "interior"), "calls": 0}
    v = np.asarray(row, dtype=np.float64)
    first, second = (call.fwd, call.inv) if side == "x" else (call.inv, call.fwd)
    n1, n2 = ("forward", "inverse") if side == "x" else ("inverse", "forward")
    try:
        a, ld1, raw1 = first(v[None])
    except Exception as e:
        out.append((tag, "%s raises %s" % (n1, type(e).__name__), "%s raised %s: %s at in-%s row %s" % (n1, type(e).__name__, str(e)[:100], "domain" if side == "x" else "range", v.tolist())))
        return out, info
    if not (np.all(np.isfinite(a)) and np.all(np.isfinite(ld1))):
        out.append((tag, "%s non-finite" % n1, "%s returned non-finite values at row %s: out=%s logabsdet=%s" % (n1, v.tolist(), a[0].tolist(), ld1.tolist())))
        return out, info
    try:
        b, ld2, raw2 = second(a[0][None])
    except Exception as e:
        out.append((tag, "%s raises %s after %s" % (n2, type(e).__name__, n1), "%s(%s(v)) raised %s: %s at row %s (intermediate %s)" % (n2, n1, type(e).__name__, str(e)[:100], v.tolist(), a[0].tolist())))
        return out, info
    if not (np.all(np.isfinite(b)) and np.all(np.isfinite(ld2))):
        out.append((tag, "%s non-finite after %s" % (n2, n1), "%s(%s(v)) returned non-finite values at row %s: %s logabsdet=%s" % (n2, n1, v.tolist(), b[0].tolist(), ld2.tolist())))
        return out, info
    if float(np.max(np.abs(a[0] - v))) > 1e-6:
        info["nontrivial"] = True
    err = float(np.max(np.abs(b[0] - v)))
    if s.exact:
        if err != 0.0:
            out.append((tag, "%s-roundtrip not exact" % side, "exact map: %s(%s(v)) differs from v by %.3g at %s" % (n2, n1, err, v.tolist())))
    else:
        scale = max(1.0, float(np.max(np.abs(v))), float(np.max(np.abs(a[0]))))
        decl = decl_inverse(s, cfg)
        xdom = s.cell_domain(cfg)
        if side == "x":
            J = jac(call, v, xdom)  # forward Jacobian at x
            cond = max(1.0, norm2(np.linalg.inv(J))) if J is not None and abs(np.linalg.det(J)) > 0 else None
            tol = None if cond is None else (1e-9 * scale + decl) * cond
        else:
            J = jac(call, a[0], xdom)  # forward Jacobian at x = inverse(y)
            cond = max(1.0, norm2(J)) if J is not None else None
            tol = None if cond is None else (1e-9 * scale + decl) * cond
        if tol is None or not np.isfinite(tol):
            info["skip"] = "conditioning-unavailable"
        elif err > tol:
            out.append((tag, "%s-roundtrip error" % side, "%s(%s(v)) differs from v by %.3g (tolerance %.3g = conditioning %.3g) at row %s" % (n2, n1, err, tol, cond, v.tolist())))
    # negated log-det: inverse's value at y equals minus forward's value at inverse(y)
    if side == "x":
        ld_inv_at_y, xr = float(ld2[0]), b[0]
        try:
            ld_fwd_at_xr = float(call.fwd(xr[None])[1][0])
        except Exception:
            ld_fwd_at_xr = None
    else:
        ld_inv_at_y, ld_fwd_at_xr = float(ld1[0]), float(ld2[0])
    if ld_fwd_at_xr is not None:
        ldtol = 1e-8 * max(1.0, abs(ld_inv_at_y)) + (1e-2 if s.kind == "umnn" else 0.0) + (1e-5 if decl_inverse(s, cfg) > 0 and s.kind != "umnn" else 0.0)
        bad = not abs(ld_inv_at_y + ld_fwd_at_xr) <= ldtol
        if bad and (not s.smooth or "special" in tag or "knot" in tag or "end-point" in tag or s.kind in ("wrapper",)):
            # at a kink the two directions may legitimately report different one-sided derivatives:
            # accept if forward reports the matching value a few ulps to either side of inverse(y)
            xr_ = np.array(b[0] if side == "x" else a[0], dtype=np.float64)
            lo_, hi_ = s.domain(cfg)
            cands = []
            import itertools as _it

            if len(xr_) <= 4:
                # every sign pattern (several coordinates may sit on kinks that need nudging in different directions)
                for rel in (1e-15, 1e-12):
                    for sg in _it.product((-1.0, 0.0, 1.0), repeat=len(xr_)):
                        if any(sg):
                            cands.append(xr_ + np.array(sg) * rel * np.maximum(1.0, np.abs(xr_)))
            else:
                for sgn in (1.0, -1.0):
                    for rel in (1e-15, 1e-12):
                        cands.append(xr_ + sgn * rel * np.maximum(1.0, np.abs(xr_)))
                        for i in range(len(xr_)):
                            xn = xr_.copy()
                            xn[i] += sgn * rel * max(1.0, abs(xn[i]))
                            cands.append(xn)
            for xn in cands:
                if lo_ is not None:
                    xn = np.maximum(xn, lo_)
                if hi_ is not None:
                    xn = np.minimum(xn, hi_)
                try:
                    alt = float(call.fwd(xn[None])[1][0])
                except Exception:
                    continue
                if abs(ld_inv_at_y + alt) <= ldtol + 1e-9:
                    bad = False
                    info["kink-side-accepted"] = True
                    break
        if bad:
            out.append((tag, "logdet not negated", "inverse logabsdet %.10g but forward logabsdet at inverse(y) is %.10g (sum %.3g) at row %s" % (ld_inv_at_y, ld_fwd_at_xr, ld_inv_at_y + ld_fwd_at_xr, v.tolist())))
    return out, info


def y_rows(s, cfg, m, pname, seed, call, kn, tier, xrows):
    """output-side rows"""
    D = call.D
    if s.kind == "umnn":  # image of the input alphabet (the inverse is declared on x in [-20, 20] only)
        rows = []
        for r, tag, c in xrows:
            try:
                rows.append((call.fwd(np.asarray(r)[None])[0][0], tag, c))
            except Exception:
                pass
        return rows
    cod = s.cell_codomain(cfg)
    yk = None
    if kn is not None:
        k = np.asarray(kn, dtype=np.float64)
        try:
            if s.kind == "spline" and s.name != "CompositeCDFTransform":
                kk = k if k.ndim == 2 else np.tile(k[None], (D, 1))
                # push knot rows through the real forward (elementwise) to place y on the output knots
                cols = []
                for j in range(kk.shape[1]):
                    cols.append(call.fwd(kk[np.arange(D) % kk.shape[0], j][None])[0][0])
                yk = np.stack(cols, axis=1)  # [D, K+1]
            elif k.ndim == 1:
                lo, hi = s.codomain(cfg)
                dlo, dhi = s.domain(cfg)
                if lo is not None and dlo is not None:
                    yk = lo + (k - dlo) * (hi - lo) / (dhi - dlo)
                else:
                    yk = k  # zero pattern: uniform knots, square box
        except Exception:
            yk = None
    rows = rows_1dev(D, cod, s.out_specials(cfg), yk, tier, j=seed + 1)
    if tier == "thorough":
        rows += rows_2dev(D, cod, s.out_specials(cfg), yk, j=seed + 1, cap=200)
    return rows


def run_case(sname, cfg, pname, seed, tier, res=None, only=None):
    vio = []
    try:
        s, m = build_case(sname, cfg, pname, seed)
    except Exception as e:
        if res is not None:
            bump(res["skipped"], "cannot-construct (C11's subject): %s" % type(e).__name__)
        return vio
    if not s.has_inverse:
        return vio
    call = Caller(s, cfg, m)
    D = call.D
    if only is not None:
        jobs = [(np.asarray(only["row"]), only["tag"], only.get("coord", -1), only["side"])]
    else:
        kn = knots_for(s, m, cfg, pname, seed)
        xr = rows_1dev(D, s.cell_domain(cfg), s.specials(cfg), kn, tier, j=seed)
        if tier == "thorough":
            xr += rows_2dev(D, s.cell_domain(cfg), s.specials(cfg), kn, j=seed, cap=200)
        yr = y_rows(s, cfg, m, pname, seed, call, kn, tier, xr)
        jobs = [(r, t, c, "x") for r, t, c in xr] + [(r, t, c, "y") for r, t, c in yr]
    sig = dev_signature(s, cfg)
    base_syms = {"x": set(), "y": set()}
    for row, tag, coord, side in jobs:
        vs, info = check_row(s, cfg, m, row, tag, side, call)
        if tag == "base":
            base_syms[side] = {sym for _, sym, _ in vs}
        else:
            vs = [("base" if sym in base_syms[side] else cell, sym, msg) for cell, sym, msg in vs]
        if res is not None:
            res["evaluations"] += 1
            res["states"] += 1
            res["traces"] += 1
            if info.get("nontrivial"):
                res["nontrivial"] += 1
            if info.get("skip"):
                bump(res["skipped"], info["skip"])
            bump(res["outcomes"], "%s:%s-side:%s" % (s.kind, side, "violation" if vs else "ok"))
        for cell, sym, msg in vs:
            case = {"subject": sname, "cfg": cfg, "pattern": pname, "seed": seed, "row": [float(v) for v in row], "tag": tag, "coord": coord, "side": side}
            vio.append({"key": "%s|%s|%s|%s" % (sname, sig, cell.split("+")[0], sym), "case": case, "msg": "%s cfg=%s pattern=%s: %s" % (sname, cfg, pname, msg)})
    if res is not None:
        res["transitions"] += call.calls
        if not res["samples"] and jobs:
            j = jobs[min(5, len(jobs) - 1)]
            res["samples"].append({"subject": sname, "cfg": cfg, "pattern": pname, "row": [float(v) for v in j[0]], "tag": j[1], "side": j[3]})
    return vio


def units(tier, seed):
    k = 1 if tier == "quick" else 2
    return [(name, cfg, tier, seed) for name, s in C.SUBJECTS.items() if s.has_inverse for cfg in C.enum_configs(s, k)]


def run_unit(unit):
    name, cfg, tier, seed = unit
    res = new_result()
    for pname in C.SUBJECTS[name].patterns:
        res["violations"].extend(run_case(name, cfg, pname, seed, tier, res))
    return res


def replay(case):
    return run_case(case["subject"], case["cfg"], case["pattern"], case["seed"], "quick", None, only=case)
