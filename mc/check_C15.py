"""C15 -- saving and reloading a model reproduces the same function (E2 history explorer).

For every model class x configuration x history-before-saving: build A (construction randomness
answered one way), run the history, take its state_dict; build B of the same configuration with the
randomness answered another way, load the state dict (strict) and compare forward / inverse /
log_prob of A and B bit for bit in eval mode.  Constructor randomness with a small answer space
(random permutations, random MADE degrees, random binary masks) is enumerated through seams: ALL
pairs of answers.
"""
import copy
import itertools
from unittest import mock

import numpy as np
import torch

from mc import catalog as C
from mc import dcatalog as DC
from mc.common import bump, new_result
from mc.harness import dev_signature
from mc.numerics import base_row
from mc.params import fill, pat_tensor
from nflows import transforms as T
from nflows.utils import torchutils

PROPERTY = "C15"
RULE = (
    "(1) every transform subject x config (<=2 deviations; thorough <=3) and every distribution/flow x config, x history before saving {fresh, data-dependent init (one training "
    "forward), 2 training steps, eval-mode calls (cache on where available)}: A built under torch seed a with pattern parameters, B under seed b as constructed; (2) seam enumeration: "
    "RandomPermutation(n<=3) under ALL pairs of permutations, OneByOneConvolution(3) under all pairs, masked autoregressive transform with random masks (F=3,H=3) under all pairs of "
    "sorted degree draws, couplings built from create_random_binary_mask(3/4) under all pairs of multinomial answers. Non-trivial = A and B compute different functions before loading."
)
ASSUMPTIONS = [
    "same configuration = same constructor arguments; everything else must travel in state_dict() (strict loading)",
    "bitwise equality (torch.equal) of outputs, log-dets and log-probs on 3 rows in eval mode, float32 as constructed",
    "after the eval-mode comparison both models make one more training-mode call on a new 4-row batch under the same RNG state; its results and the eval-mode results afterwards must again be bit-identical (initialisation flags and 'first batch' markers must have travelled)",
    "vacuity guard: the number of (a,b) pairs where A and B differed before loading is counted and reported",
]

HISTS = ("fresh", "ddinit", "train2", "evalcalls", "train64")


def bounds(tier, seed):
    return {"histories": list(HISTS), "config_deviations": 2 if tier == "quick" else 3, "seam_pairs": "all"}


def run_hist(m, hist, call_train):
    if hist == "fresh":
        return
    if hist == "ddinit":
        m.train()
        call_train(m, step=False)
    elif hist == "train2":
        m.train()
        params = [p for p in m.parameters() if p.requires_grad]
        opt = torch.optim.SGD(params, lr=0.002) if params else None
        for _ in range(2):
            loss = call_train(m, step=True)
            if opt is not None and loss is not None and loss.requires_grad:
                opt.zero_grad()
                loss.backward()
                opt.step()
    elif hist == "train64":
        # two training-mode calls on double-precision data in the model as constructed (float32). Where the model accepts
        # them (element-wise layers with running statistics do, by type promotion) its state must still be what a fresh
        # float32 model can hold; where it raises a dtype mismatch the history is not executable and is counted as skipped.
        m.train()
        with torch.no_grad():
            call_train(m, step=False, f64=True)
            call_train(m, step=False, f64=True)
    elif hist == "evalcalls":
        m.eval()
        for mod in m.modules():
            if hasattr(mod, "use_cache"):
                mod.use_cache(True)
        with torch.no_grad():
            call_train(m, step=False)
            call_train(m, step=False)



def pristine(m):
    """A stand-in for m to observe before loading: the vacuity guard (do A and B differ before the load?) must not itself
    make calls on the model that is about to load -- "freshly constructed" means no call has been made on it, and a
    pending first-call action (deferred initialisation) would otherwise be used up by the guard."""
    try:
        c = copy.deepcopy(m)
    except Exception:
        return None
    c.eval()
    return c


def observe_transform(m, s, cfg, x, ctx):
    out = {}
    with torch.no_grad():
        try:
            y, ld = m(x, ctx) if ctx is not None else m(x)
            out["forward"] = (y, ld)
            if s.has_inverse:
                try:
                    out["inverse"] = m.inverse(y, ctx) if ctx is not None else m.inverse(y)
                except Exception as e:
                    out["inverse"] = ("raises", type(e).__name__)
        except Exception as e:
            out["forward"] = ("raises", type(e).__name__)
    return out


def same(a, b):
    if isinstance(a, tuple) and a and isinstance(a[0], str):
        return a == b
    if isinstance(b, tuple) and b and isinstance(b[0], str):
        return False
    def eq(u, v):
        if not (torch.is_tensor(u) and torch.is_tensor(v)):
            return type(u) is type(v) and u == v  # (a result that is not a tensor at all is other properties' business; here only A == B matters)
        return u.shape == v.shape and torch.equal(torch.nan_to_num(u, nan=12345.0), torch.nan_to_num(v, nan=12345.0))

    return all(eq(u, v) for u, v in zip(a, b))


def compare(oa, ob):
    for k in oa:
        if k not in ob or not same(oa[k], ob[k]):
            if isinstance(oa[k], tuple) and isinstance(oa[k][0], torch.Tensor) and isinstance(ob.get(k), tuple) and isinstance(ob[k][0], torch.Tensor):
                d = max(float((u.double() - v.double()).abs().max()) if (torch.is_tensor(u) and torch.is_tensor(v) and u.shape == v.shape) else float("inf") for u, v in zip(oa[k], ob[k]))
                return k, "results differ by %.3g" % d
            return k, "%s vs %s" % (oa[k] if isinstance(oa[k][0], str) else "values", ob.get(k) if k in ob and isinstance(ob[k][0], str) else "values")
    return None


def continue_training(A, B, call, observe):
    """after the reload: one more training-mode call on a NEW batch in both models (same RNG state), then evaluation again.
    State that decides what a training-mode call does (initialisation flags, 'first batch seen' markers) has to travel too,
    otherwise the reloaded model re-initialises / restarts its statistics and the two functions part ways."""
    A.train()
    B.train()
    res = []
    for m in (A, B):
        torch.manual_seed(4242)
        try:
            with torch.no_grad():
                r = call(m)
            res.append(tuple(t for t in (r if isinstance(r, (tuple, list)) else (r,))))
        except Exception as e:
            res.append(("raises", type(e).__name__))
    A.eval()
    B.eval()
    if not same(res[0], res[1]):
        return "training-mode call", compare({"k": res[0]}, {"k": res[1]})[1]
    d = compare(observe(A), observe(B))
    if d:
        return d[0] + " after one more training-mode call", d[1]
    return None


def transform_case(sname, cfg, hist, seed, res=None):
    s = C.SUBJECTS[sname]
    vio = []
    shape = s.shape(cfg)
    D = int(np.prod(shape))
    dom = s.cell_domain(cfg)
    x = torch.tensor(np.stack([base_row(D, dom, seed + k) for k in range(3)]), dtype=torch.float32).reshape(3, *shape)
    cs = s.ctx_shape(cfg)
    ctx = None if cs is None else torch.stack([pat_tensor(cs, 5 + k, 0.7, dtype=torch.float32) for k in range(3)])
    try:
        pn = "pat1" if "pat1" in s.patterns else "init"
        A = C.materialise(s, cfg, pn, seed, dtype=torch.float32)
        with torch.random.fork_rng():
            torch.manual_seed(777 + seed)
            B = s.build(cfg)
    except Exception as e:
        if res is not None:
            bump(res["skipped"], "cannot-construct (C11's subject): %s" % type(e).__name__)
        return vio, None

    def call_train(m, step, f64=False):
        xx, cc = (x.double(), None if ctx is None else ctx.double()) if f64 else (x, ctx)
        y, ld = m(xx, cc) if cc is not None else m(xx)
        return (y ** 2).mean() - ld.mean() if step else None

    try:
        torch.manual_seed(555 + seed)  # the history before saving may draw random numbers (dropout in training steps): owned, so that replays agree
        run_hist(A, hist, call_train)
    except Exception as e:
        if res is not None:
            bump(res["skipped"], "history not executable (other properties): %s" % type(e).__name__)
        return vio, None
    A.eval()
    B.eval()
    A0, B0 = pristine(A), pristine(B)
    before = (A0 is None or B0 is None) or compare(observe_transform(A0, s, cfg, x, ctx), observe_transform(B0, s, cfg, x, ctx)) is not None
    sig = dev_signature(s, cfg)
    try:
        B.load_state_dict(A.state_dict(), strict=True)
    except Exception as e:
        vio.append({"key": "%s|%s|%s|load_state_dict raises %s" % (sname, sig, hist, type(e).__name__), "case": {"kind": "transform", "subject": sname, "cfg": cfg, "hist": hist, "seed": seed},
                    "msg": "%s cfg=%s history=%s: loading A's state dict into a fresh instance raised %s: %s" % (sname, cfg, hist, type(e).__name__, str(e)[:160])})
        return vio, before
    for mod in B.modules():
        if hasattr(mod, "use_cache") and hist == "evalcalls":
            mod.use_cache(True)
    d = compare(observe_transform(A, s, cfg, x, ctx), observe_transform(B, s, cfg, x, ctx))
    if d:
        vio.append({"key": "%s|%s|%s|reloaded model differs (%s)" % (sname, sig, hist, d[0]), "case": {"kind": "transform", "subject": sname, "cfg": cfg, "hist": hist, "seed": seed},
                    "msg": "%s cfg=%s history=%s: after load_state_dict the fresh instance's %s differs from the saved model: %s" % (sname, cfg, hist, d[0], d[1])})
        return vio, before
    x2 = torch.tensor(np.stack([base_row(D, dom, seed + 11 + k) for k in range(4)]), dtype=torch.float32).reshape(4, *shape)
    ctx2 = None if cs is None else torch.stack([pat_tensor(cs, 15 + k, 0.7, dtype=torch.float32) for k in range(4)])
    d = continue_training(A, B, (lambda m: m(x2, ctx2) if ctx2 is not None else m(x2)), lambda m: observe_transform(m, s, cfg, x, ctx))
    if d:
        vio.append({"key": "%s|%s|%s|reloaded model diverges when used further (%s)" % (sname, sig, hist, d[0]), "case": {"kind": "transform", "subject": sname, "cfg": cfg, "hist": hist, "seed": seed},
                    "msg": "%s cfg=%s history=%s: the reloaded instance agreed in evaluation mode, but %s differs from the saved model's: %s" % (sname, cfg, hist, d[0], d[1])})
    return vio, before


def dist_case(dname, cfg, hist, seed, res=None):
    d = DC.DSUBJECTS[dname]
    vio = []
    x = d.points(cfg, 3, seed, dtype=torch.float32)
    ctx = d.contexts(cfg, 3, seed, dtype=torch.float32)
    try:
        A = DC.materialise(d, cfg, "pat1" if "pat1" in d.patterns else "init", seed, dtype=torch.float32)
        with torch.random.fork_rng():
            torch.manual_seed(777 + seed)
            B = d.build(cfg)
    except Exception as e:
        if res is not None:
            bump(res["skipped"], "cannot-construct: %s" % type(e).__name__)
        return vio, None

    def call_train(m, step, f64=False):
        xx, cc = (x.double(), None if ctx is None else ctx.double()) if f64 else (x, ctx)
        lp = m.log_prob(xx, context=cc)
        return -lp.mean() if step else None

    try:
        torch.manual_seed(555 + seed)  # the history before saving may draw random numbers (dropout in training steps): owned, so that replays agree
        run_hist(A, hist, call_train)
    except Exception as e:
        if res is not None:
            bump(res["skipped"], "history not executable (other properties): %s" % type(e).__name__)
        return vio, None
    A.eval()
    B.eval()

    def obs(m):
        o = {}
        with torch.no_grad():
            try:
                o["log_prob"] = (m.log_prob(x, context=ctx),)
            except Exception as e:
                o["log_prob"] = ("raises", type(e).__name__)
            if d.is_flow:
                try:
                    o["transform_to_noise"] = (m.transform_to_noise(x, context=ctx),)
                except Exception as e:
                    o["transform_to_noise"] = ("raises", type(e).__name__)
        return o

    A0, B0 = pristine(A), pristine(B)
    before = (A0 is None or B0 is None) or compare(obs(A0), obs(B0)) is not None
    sig = DC.dev_signature(d, cfg)
    try:
        B.load_state_dict(A.state_dict(), strict=True)
    except Exception as e:
        vio.append({"key": "%s|%s|%s|load_state_dict raises %s" % (dname, sig, hist, type(e).__name__), "case": {"kind": "dist", "subject": dname, "cfg": cfg, "hist": hist, "seed": seed},
                    "msg": "%s cfg=%s history=%s: loading raised %s: %s" % (dname, cfg, hist, type(e).__name__, str(e)[:160])})
        return vio, before
    if hist == "evalcalls":
        for mod in B.modules():
            if hasattr(mod, "use_cache"):
                mod.use_cache(True)
    dd = compare(obs(A), obs(B))
    if dd:
        vio.append({"key": "%s|%s|%s|reloaded model differs (%s)" % (dname, sig, hist, dd[0]), "case": {"kind": "dist", "subject": dname, "cfg": cfg, "hist": hist, "seed": seed},
                    "msg": "%s cfg=%s history=%s: after load_state_dict %s differs: %s" % (dname, cfg, hist, dd[0], dd[1])})
        return vio, before
    x2 = d.points(cfg, 4, seed + 9, dtype=torch.float32)
    ctx2 = d.contexts(cfg, 4, seed + 9, dtype=torch.float32)
    dd = continue_training(A, B, lambda m: m.log_prob(x2, context=ctx2), obs)
    if dd:
        vio.append({"key": "%s|%s|%s|reloaded model diverges when used further (%s)" % (dname, sig, hist, dd[0]), "case": {"kind": "dist", "subject": dname, "cfg": cfg, "hist": hist, "seed": seed},
                    "msg": "%s cfg=%s history=%s: the reloaded instance agreed in evaluation mode, but %s differs from the saved model's: %s" % (dname, cfg, hist, dd[0], dd[1])})
    return vio, before


# ----------------------------------------------------------------------------- seam enumeration


def seam_cases():
    for n in (2, 3):
        perms = list(itertools.permutations(range(n)))
        for a in perms:
            for b in perms:
                yield {"kind": "seam", "what": "RandomPermutation", "n": n, "a": list(a), "b": list(b)}
    perms = list(itertools.permutations(range(3)))
    for a in perms:
        for b in perms:
            yield {"kind": "seam", "what": "OneByOneConvolution", "n": 3, "a": list(a), "b": list(b)}
    degs = [tuple(c) for c in itertools.combinations_with_replacement((1, 2), 3)]
    for a in degs:
        for b in degs:
            yield {"kind": "seam", "what": "MaskedAR-random-mask", "n": 3, "a": list(a), "b": list(b)}
    for f in (3, 4):
        half = (f + 1) // 2
        combs = list(itertools.combinations(range(f), half))
        for a in combs:
            for b in combs:
                yield {"kind": "seam", "what": "coupling-random-binary-mask", "n": f, "a": list(a), "b": list(b)}
    for a, b in itertools.product([(0, 1), (1, 0)], repeat=2):
        yield {"kind": "seam", "what": "MAF-random-permutations", "n": 2, "a": list(a), "b": list(b)}


def build_seam(case, which):
    ans = case[which]
    what, n = case["what"], case["n"]
    if what in ("RandomPermutation", "OneByOneConvolution", "MAF-random-permutations"):
        def fake_randperm(k, **kw):
            return torch.tensor(ans, dtype=torch.long)[:k] if k == len(ans) else torch.arange(k)

        with mock.patch.object(torch, "randperm", fake_randperm):
            torch.manual_seed(1 if which == "a" else 2)
            if what == "RandomPermutation":
                return T.RandomPermutation(n)
            if what == "OneByOneConvolution":
                m = T.OneByOneConvolution(n, identity_init=False)
                return m
            from nflows.flows import MaskedAutoregressiveFlow

            return MaskedAutoregressiveFlow(2, 4, num_layers=2, num_blocks_per_layer=1, use_random_permutations=True)
    if what == "MaskedAR-random-mask":
        def fake_randint(low=0, high=None, size=None, dtype=None, **kw):
            k = size[0] if isinstance(size, (list, tuple)) else int(size)
            v = [min(max(int(d), int(low)), int(high) - 1) for d in ans][:k]
            v = (v + [int(low)] * k)[:k]
            return torch.tensor(v, dtype=torch.long)

        with mock.patch.object(torch, "randint", fake_randint):
            torch.manual_seed(1 if which == "a" else 2)
            return T.MaskedAffineAutoregressiveTransform(3, 3, num_blocks=1, use_residual_blocks=False, random_mask=True)
    if what == "coupling-random-binary-mask":
        def fake_multinomial(input, num_samples, replacement=False, **kw):
            return torch.tensor(ans[:num_samples], dtype=torch.long)

        with mock.patch.object(torch, "multinomial", fake_multinomial):
            mask = torchutils.create_random_binary_mask(n)
        torch.manual_seed(1 if which == "a" else 2)
        return T.AffineCouplingTransform(mask, C.resnet(None))
    raise ValueError(what)


def seam_case(case):
    vio = []
    A, B = build_seam(case, "a"), build_seam(case, "b")
    fill(A, ("pat", 0, 0.8))
    what, n = case["what"], case["n"]
    if what == "OneByOneConvolution":
        x = pat_tensor((3, n, 2, 1), 2, 1.0, dtype=torch.float32)
    else:
        x = pat_tensor((3, n), 2, 1.0, dtype=torch.float32)
    A.eval()
    B.eval()

    def obs(m):
        with torch.no_grad():
            if what == "MAF-random-permutations":
                return {"log_prob": (m.log_prob(x),), "noise": (m.transform_to_noise(x),)}
            y, ld = m(x)
            return {"forward": (y, ld), "inverse": m.inverse(y)}

    A0, B0 = pristine(A), pristine(B)
    before = (A0 is None or B0 is None) or compare(obs(A0), obs(B0)) is not None
    try:
        B.load_state_dict(A.state_dict(), strict=True)
    except Exception as e:
        vio.append({"key": "%s|seam|load_state_dict raises %s" % (what, type(e).__name__), "case": case, "msg": "%s answers a=%s b=%s: load_state_dict raised %s: %s" % (what, case["a"], case["b"], type(e).__name__, str(e)[:120])})
        return vio, before
    d = compare(obs(A), obs(B))
    if d:
        vio.append({"key": "%s|seam|reloaded model differs (%s)" % (what, d[0]), "case": case, "msg": "%s built under answer %s, state dict loaded into an instance built under answer %s: %s differs (%s)" % (what, case["a"], case["b"], d[0], d[1])})
    return vio, before


def units(tier, seed):
    k = 2 if tier == "quick" else 3
    us = [("t", name, cfg, seed) for name, s in C.SUBJECTS.items() for cfg in C.enum_configs(s, k)]
    us += [("d", name, cfg, seed) for name, d in DC.DSUBJECTS.items() if d.torch_tensor_api for cfg in DC.enum_configs(d, k)]
    us.append(("seam",))
    return us


def run_unit(unit):
    res = new_result()
    if unit[0] == "seam":
        for case in seam_cases():
            vs, before = seam_case(case)
            _count(res, vs, before, "seam:" + case["what"])
            if not res["samples"]:
                res["samples"].append(case)
        return res
    kind, name, cfg, seed = unit
    for hist in HISTS:
        vs, before = (transform_case if kind == "t" else dist_case)(name, cfg, hist, seed, res)
        if before is None:
            continue
        _count(res, vs, before, "%s:%s" % ("transform" if kind == "t" else "dist", hist))
        if not res["samples"]:
            res["samples"].append({"subject": name, "cfg": cfg, "history": hist})
    return res


def _count(res, vs, before, label):
    res["evaluations"] += 1
    res["states"] += 2
    res["transitions"] += 6
    res["traces"] += 1
    if before:
        res["nontrivial"] += 1
    bump(res["outcomes"], "%s:%s:%s" % (label, "A!=B before load" if before else "A==B before load", "violation" if vs else "ok"))
    res["violations"].extend(vs)


def replay(case):
    if case["kind"] == "seam":
        return seam_case(case)[0]
    if case["kind"] == "transform":
        return transform_case(case["subject"], case["cfg"], case["hist"], case["seed"])[0]
    return dist_case(case["subject"], case["cfg"], case["hist"], case["seed"])[0]
