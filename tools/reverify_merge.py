#!/venv/bin/python
"""reverify_merge.py <shard.json>...: merge shard results of reverify_seeded.py (REVERIFY_OUT=<shard>) into /verif/seeded/REVERIFY.json"""
import json, sys
p = "/verif/seeded/REVERIFY.json"
out = json.load(open(p))
for f in sys.argv[1:]:
    out.update(json.load(open(f)))
json.dump(dict(sorted(out.items())), open(p, "w"), indent=1)
print(len(out), "entries")
