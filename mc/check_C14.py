"""C14 -- normalisation layers follow their documented life-cycle over every history (E2 history explorer).

All histories over {train, eval, fwd(b1), fwd(b2), inv(b1), saveload} up to a depth are replayed on a
fresh real ActNorm / BatchNorm in lock-step with a numpy reference automaton of the documented
behaviour; outputs, log-dets, the state dict and the exception type are compared after every step.
ActNorm additionally: BFS with exact state hashing to the fixpoint.
"""
import itertools

import numpy as np
import torch

from mc.common import bump, new_result
from mc.params import pat_tensor
from nflows import transforms as T
from nflows.transforms.base import InverseNotAvailable

PROPERTY = "C14"
RULE = (
    "subjects {ActNorm on [B,F], ActNorm on [B,C,H,W], BatchNorm on [B,F], ActNorm / BatchNorm inside a CompositeTransform (driven, saved and loaded through the parent), ActNorm on batches in units of 1e-4} x ALL histories of length <=5 (thorough <=7) over the 6-letter alphabet "
    "{train, eval, fwd(b1), fwd(b2), inv(b1), saveload (state dict into a freshly constructed instance, continue on the copy)} with two fixed batches of different statistics; "
    "plus BFS over the exact concrete state for ActNorm until no new state appears. Non-trivial = the history contains a training-mode forward followed by at least one more observing step."
)
ASSUMPTIONS = [
    "reference automaton (numpy, float64): ActNorm initialises iff training and not yet initialised and forward; the initialising batch must come out with zero mean and unit variance per feature/channel (variance with n or n-1 accepted); the parameters it chose are then read back once and must never change again",
    "BatchNorm: batch mean/variance (n or n-1 accepted, the same convention for normalisation and running statistics is not required) in training forwards with running <- (1-m) running + m batch; running statistics in eval; inverse only in eval (InverseNotAvailable in training)",
    "comparison tolerance 1e-10 in float64",
]

SIGMA = ("train", "eval", "fwd1", "fwd2", "inv1", "saveload")
SUBJECTS = ("ActNorm2d", "ActNorm4d", "BatchNorm", "ActNorm2d+nested", "BatchNorm+nested", "ActNorm2d:tiny", "ActNorm4d:tiny")  # :tiny = batches in units of 1e-4 (per-feature std far below 1e-3)  # +nested: the layer sits inside a CompositeTransform and is driven, saved and loaded through it
MOM, EPS = 0.25, 1e-3


def bounds(tier, seed):
    return {"alphabet": list(SIGMA), "depth": 5 if tier == "quick" else 7, "subjects": list(SUBJECTS), "batchnorm": {"momentum": MOM, "eps": EPS}}


def batches(subj):
    if subj.startswith("ActNorm4d"):
        b1 = pat_tensor((3, 2, 2, 2), 2, 1.5) + 0.7
        b2 = pat_tensor((1, 2, 2, 2), 3, 0.6) - 1.1  # a single image (batch size one is a perfectly good initialisation batch: H*W values per channel)
    else:
        b1 = pat_tensor((4, 3), 2, 1.5) + 0.7
        b2 = pat_tensor((5, 3), 3, 0.6) - 1.1
    if subj.endswith(":tiny"):
        b1, b2 = b1 * 1e-4, b2 * 1e-4
    return {"1": b1, "2": b2}


def fresh(subj, seed=0):
    torch.manual_seed(seed)
    if subj.startswith("ActNorm"):
        m = T.ActNorm(2 if subj.startswith("ActNorm4d") else 3)
    else:
        m = T.BatchNorm(3, eps=EPS, momentum=MOM)
        with torch.no_grad():
            m.unconstrained_weight.copy_(pat_tensor((3,), 1, 0.8, dtype=torch.float32))
            m.bias.copy_(pat_tensor((3,), 4, 0.5, dtype=torch.float32))
    return m.double()


def per_feature(x):
    """[N, F] view of a 2-D or 4-D batch (channels as features)"""
    a = x.numpy()
    if a.ndim == 4:
        return a.transpose(0, 2, 3, 1).reshape(-1, a.shape[1])
    return a


class Ref:
    """numpy reference automaton"""

    def __init__(self, subj, m):
        self.subj = subj
        self.training = True
        self.sd = sd_np(m)
        self.initialized = False  # model state of ActNorm (tracked by the automaton itself, not read from the layer)

    def step(self, op, B):
        """returns expectation dict: {'raises': type|None, 'check': callable(real outputs, real state_dict) -> msg|None}"""
        s = self.subj
        if op == "train":
            self.training = True
            return {"raises": None, "same_state": True}
        if op == "eval":
            self.training = False
            return {"raises": None, "same_state": True}
        if op == "saveload":
            return {"raises": None, "same_state": True}
        b = B[op[-1]]
        if s.startswith("ActNorm"):
            hw = b.shape[2] * b.shape[3] if b.dim() == 4 else 1
            if op.startswith("fwd") and self.training and not self.initialized:
                return {"raises": None, "actnorm_init": True, "hw": hw}
            ls, sh = self.sd["log_scale"], self.sd["shift"]
            shp = (1, -1, 1, 1) if b.dim() == 4 else (1, -1)
            if op.startswith("fwd"):
                y = np.exp(ls).reshape(shp) * b.numpy() + sh.reshape(shp)
                ld = np.full(b.shape[0], hw * ls.sum())
            else:
                y = (b.numpy() - sh.reshape(shp)) / np.exp(ls).reshape(shp)
                ld = np.full(b.shape[0], -hw * ls.sum())
            return {"raises": None, "y": y, "ld": ld, "same_state": True}
        # BatchNorm
        w = np.log1p(np.exp(self.sd["unconstrained_weight"])) + EPS
        bias = self.sd["bias"]
        x = b.numpy()
        if op.startswith("fwd"):
            if self.training:
                mean = x.mean(0)
                cands = []
                for ddof_norm in (1, 0):
                    var = x.var(0, ddof=ddof_norm)
                    y = w * (x - mean) / np.sqrt(var + EPS) + bias
                    ld = np.full(x.shape[0], np.sum(np.log(w) - 0.5 * np.log(var + EPS)))
                    for ddof_run in (1, 0):
                        rv = (1 - MOM) * self.sd["running_var"] + MOM * x.var(0, ddof=ddof_run)
                        rm = (1 - MOM) * self.sd["running_mean"] + MOM * mean
                        cands.append((y, ld, rm, rv))
                return {"raises": None, "bn_train": cands}
            mean, var = self.sd["running_mean"], self.sd["running_var"]
            y = w * (x - mean) / np.sqrt(var + EPS) + bias
            ld = np.full(x.shape[0], np.sum(np.log(w) - 0.5 * np.log(var + EPS)))
            return {"raises": None, "y": y, "ld": ld, "same_state": True}
        if self.training:
            return {"raises": InverseNotAvailable, "same_state": True}
        mean, var = self.sd["running_mean"], self.sd["running_var"]
        y = np.sqrt(var + EPS) * ((x - bias) / w) + mean
        ld = np.full(x.shape[0], np.sum(-np.log(w) + 0.5 * np.log(var + EPS)))
        return {"raises": None, "y": y, "ld": ld, "same_state": True}


def close(a, b, tol=1e-10):
    a, b = np.asarray(a, dtype=np.float64), np.asarray(b, dtype=np.float64)
    if a.shape != b.shape:
        return False
    if not (np.all(np.isfinite(a)) == np.all(np.isfinite(b))):
        return False
    with np.errstate(invalid="ignore"):
        return bool(np.all((np.abs(a - b) <= tol * (1 + np.abs(b))) | (a == b) | (np.isnan(a) & np.isnan(b))))


def sd_np(m):
    """every parameter and buffer of the layer (also non-persistent ones: the layer's state, whether or not it is saved)"""
    d = {k: v.detach().numpy().copy() for k, v in m.named_parameters()}
    d.update({k: v.detach().numpy().copy() for k, v in m.named_buffers()})
    return d


_CLS_TENSORS = {}


def _reset_class_state():
    """tensors kept at class level (a flag shared by all instances, say) are state shared across layers: every history starts from
    the values they had when first looked at, so that findings replay identically within one process"""
    for cls in (T.ActNorm, T.BatchNorm):
        for k, v in list(vars(cls).items()):
            if torch.is_tensor(v):
                key = (cls.__name__, k)
                if key not in _CLS_TENSORS:
                    _CLS_TENSORS[key] = v.detach().clone()
                else:
                    with torch.no_grad():
                        v.copy_(_CLS_TENSORS[key])


def run_history(subj, hist):
    """returns (violation (cell, symptom, msg) or None, info)"""
    _reset_class_state()
    B = batches(subj)
    m = fresh(subj, 0)
    nested = subj.endswith("+nested")
    root = T.CompositeTransform([m]) if nested else m
    ref = Ref(subj, m)
    info = {"nontrivial": False, "train_fwd": False}
    for i, op in enumerate(hist):
        exp = ref.step(op, B)
        where = "history %s step %d (%s)" % (list(hist), i, op)
        err = None
        y = ld = None
        try:
            if op == "train":
                root.train()
            elif op == "eval":
                root.eval()
            elif op == "saveload":
                m2 = fresh(subj, 1 + i)
                if subj.startswith("ActNorm") and bool(m2.initialized):
                    return ("init", "a freshly constructed layer is already initialised", "%s: the instance just built for loading reports initialized=True (state shared between instances)" % where), info
                root2 = T.CompositeTransform([m2]) if nested else m2
                root2.load_state_dict(root.state_dict())
                root2.train(root.training)  # the mode is not part of the state dict; the caller keeps it
                m, root = m2, root2
            else:
                with torch.no_grad():
                    y, ld = (root.forward if op.startswith("fwd") else root.inverse)(B[op[-1]])
        except Exception as e:
            err = e
        if op.startswith(("fwd", "inv")) and info["train_fwd"]:
            info["nontrivial"] = True
        if exp["raises"] is not None:
            if err is None:
                return ("inverse-in-training", "inverse offered in training mode", "%s: returned a result, the documented behaviour is %s" % (where, exp["raises"].__name__)), info
            if not isinstance(err, exp["raises"]):
                return ("inverse-in-training", "wrong exception %s" % type(err).__name__, "%s: raised %s, documented %s" % (where, type(err).__name__, exp["raises"].__name__)), info
        elif err is not None:
            return (op.rstrip("12"), "raises %s" % type(err).__name__, "%s: raised %s: %s" % (where, type(err).__name__, str(err)[:120])), info
        real_sd = sd_np(m)
        if exp.get("actnorm_init"):
            info["train_fwd"] = True
            pf = per_feature(y)
            mean, v1, v0 = pf.mean(0), pf.var(0, ddof=1), pf.var(0, ddof=0)
            if not close(mean, 0 * mean, 1e-9) or not (close(v1, 1 + 0 * v1, 1e-9) or close(v0, 1 + 0 * v0, 1e-9)):
                return ("init", "initialising batch not normalised", "%s: outputs of the initialising batch have per-feature mean %s and variance %s" % (where, mean.tolist(), v1.tolist())), info
            if "initialized" in real_sd and not bool(real_sd["initialized"]):
                return ("init", "initialised flag not set", "%s: data-dependent initialisation ran but `initialized` is still False" % where), info
            hw = exp["hw"]
            if not close(ld.numpy(), np.full(y.shape[0], hw * real_sd["log_scale"].sum())):
                return ("init", "logabsdet inconsistent with the chosen scale", "%s: logabsdet %s vs h*w*sum(log_scale) %r" % (where, ld.tolist(), hw * real_sd["log_scale"].sum())), info
            ref.sd = real_sd  # read the chosen parameters back once; they must never change again
            ref.initialized = True
            continue
        if "bn_train" in exp:
            info["train_fwd"] = True
            ok = False
            for (ry, rld, rm, rv) in exp["bn_train"]:
                if close(y.numpy(), ry) and close(ld.numpy(), rld) and close(real_sd["running_mean"], rm) and close(real_sd["running_var"], rv):
                    ok = True
                    ref.sd = dict(ref.sd, running_mean=rm, running_var=rv)
                    break
            if not ok:
                ry, rld, rm, rv = exp["bn_train"][0]
                what = "outputs" if not any(close(y.numpy(), c[0]) for c in exp["bn_train"]) else ("logabsdet" if not any(close(ld.numpy(), c[1]) for c in exp["bn_train"]) else "running statistics")
                return ("train-forward", "%s differ from the batch-statistics / momentum rule" % what, "%s: %s do not follow batch statistics with running <- (1-m) running + m batch (running_mean %s, model %s; running_var %s, model %s)" % (where, what, real_sd["running_mean"].tolist(), rm.tolist(), real_sd["running_var"].tolist(), rv.tolist())), info
            for k in ref.sd:
                if k not in ("running_mean", "running_var") and not close(real_sd[k], ref.sd[k]):
                    return ("train-forward", "parameter %s changed" % k, "%s: %s changed" % (where, k)), info
            continue
        if "y" in exp:
            if not close(y.numpy(), exp["y"]):
                return (op.rstrip("12") + (":train" if ref.training else ":eval"), "outputs differ from the reference model", "%s: outputs differ from the documented behaviour by %.3g" % (where, float(np.max(np.abs(y.numpy() - exp["y"]))))), info
            if not close(ld.numpy(), exp["ld"]):
                return (op.rstrip("12") + (":train" if ref.training else ":eval"), "logabsdet differs from the reference model", "%s: logabsdet %s, model %s" % (where, ld.tolist(), exp["ld"].tolist())), info
        if exp.get("same_state"):
            for k in ref.sd:
                if k not in real_sd or not close(real_sd[k], ref.sd[k]):
                    return (op.rstrip("12") + (":train" if ref.training else ":eval"), "state changed (%s)" % k, "%s: %s changed from %s to %s although this step must not modify the layer" % (where, k, np.asarray(ref.sd[k]).tolist(), np.asarray(real_sd.get(k)).tolist())), info
    return None, info


def bfs_actnorm(subj):
    """explicit-state BFS over (training, exact state-dict bytes) until the fixpoint"""
    res = new_result()
    seen = {}
    frontier = [()]
    B = batches(subj)
    while frontier:
        nxt = []
        for hist in frontier:
            for op in SIGMA:
                h2 = hist + (op,)
                v, info = run_history(subj, h2)
                res["transitions"] += 1
                res["traces"] += 1
                if v is not None:
                    res["violations"].append({"key": "%s|%s|%s" % (subj, v[0], v[1]), "case": {"subject": subj, "hist": list(h2)}, "msg": v[2]})
                    continue
                # recompute the concrete state reached
                m = fresh(subj, 0)
                ok = True
                for i, o in enumerate(h2):
                    try:
                        if o == "train":
                            m.train()
                        elif o == "eval":
                            m.eval()
                        elif o == "saveload":
                            m2 = fresh(subj, 1 + i)
                            m2.load_state_dict(m.state_dict())
                            m2.train(m.training)
                            m = m2
                        else:
                            with torch.no_grad():
                                (m.forward if o.startswith("fwd") else m.inverse)(B[o[-1]])
                    except Exception:
                        ok = False
                        break
                if not ok:
                    continue
                key = (m.training,) + tuple(v_.numpy().tobytes() for v_ in m.state_dict().values())
                if key not in seen:
                    seen[key] = h2
                    nxt.append(h2)
        frontier = nxt
    res["states"] = len(seen)
    res["evaluations"] = res["transitions"]
    res["nontrivial"] = len(seen)
    bump(res["outcomes"], "bfs:%s:states=%d" % (subj, len(seen)))
    res["samples"].append({"mode": "bfs", "subject": subj, "reachable_states": len(seen), "deepest": list(max(seen.values(), key=len)) if seen else []})
    return res


def units(tier, seed):
    depth = 5 if tier == "quick" else 7
    us = []
    for subj in SUBJECTS:
        for first2 in itertools.product(SIGMA, repeat=2):
            us.append(("hist", subj, first2, depth))
        us.append(("short", subj))
        if subj.startswith("ActNorm") and "+" not in subj and ":" not in subj:
            us.append(("bfs", subj))
    return us


def run_unit(unit):
    if unit[0] == "bfs":
        return bfs_actnorm(unit[1])
    res = new_result()
    subj = unit[1]
    if unit[0] == "short":
        hists = [(a,) for a in SIGMA]
    else:
        _, _, first2, depth = unit
        hists = [first2 + rest for L in range(0, depth - 1) for rest in itertools.product(SIGMA, repeat=L)]
    for hist in hists:
        v, info = run_history(subj, hist)
        res["evaluations"] += 1
        res["states"] += len(hist)
        res["transitions"] += len(hist)
        res["traces"] += 1
        if info["nontrivial"]:
            res["nontrivial"] += 1
        bump(res["outcomes"], "%s:%s" % (subj, "violation" if v else ("train-forward-then-observe" if info["nontrivial"] else "plain")))
        if v is not None:
            res["violations"].append({"key": "%s|%s|%s" % (subj, v[0], v[1]), "case": {"subject": subj, "hist": list(hist)}, "msg": v[2]})
        if not res["samples"] and info["nontrivial"] and len(hist) >= 4:
            res["samples"].append({"subject": subj, "history": list(hist)})
    return res


def replay(case):
    v, _ = run_history(case["subject"], tuple(case["hist"]))
    return [] if v is None else [{"key": "%s|%s|%s" % (case["subject"], v[0], v[1]), "case": case, "msg": v[2]}]


def case_size(case):
    return len(case.get("hist", []))
