#!/bin/bash
# usage: adopt_r2.sh <PID>r2 <m> <id> <detected_by> [note]  -- adopt /tmp/wt/<PID>r2_out/<m> reusing the verify result of process_mutants.sh
ADOPT_VERIFY=/tmp/mut/results/$1_$2.verify.json /verif/tools/adopt.py /tmp/wt/$1_out/$2 "$3" "$4" "$5"
