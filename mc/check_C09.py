"""C09 -- spline transformers are increasing bijections of their box, identity in tails (E1 product explorer).

family x bin count x box / tail bound x parameter pattern x dtype x direction; the real spline
function is evaluated on a *sorted grid* concentrated on knots, their ulp neighbours, end-points and
the tail junction, and the outputs are checked for monotonicity, continuity across knots, pinned
end-points, exact containment and identity in the tails.
"""
import math

import numpy as np
import torch

from mc.common import bump, new_result
from mc.catalog import ref_knots_from_widths
from mc.params import pat_values
from nflows.transforms import splines
from nflows.transforms.base import InputOutsideDomain

PROPERTY = "C09"
RULE = (
    "4 families x bins 1..5, 8 (thorough: 1..6, 8, 12, 16; all three pattern phases; tail bounds up to 1e4) x boxes {unit, [-1,4]x[1,3], [2,3]x[-5,-1], tails 1, 2.5, 32, 1000} x patterns {zero, pat(.,1), pat(.,3), pat(.,8) "
    "(linear family: up to 3)} x minimum bin width/height/derivative {default, tall, wide, steep} x dtype {float64, float32} x direction {forward, inverse} on the sorted grid {end-points, every knot and its "
    "+-1..3 ulp neighbours, 8 equispaced points per bin, tail junction +-0..3 ulp, 3 points outside each tail}. One case = one grid "
    "evaluation (about 60-150 points); non-trivial = the grid contains at least one interior knot or a tail junction."
)
ASSUMPTIONS = [
    "floating-point monotonicity/continuity/end-point tolerance 64*ulp(scale)*(1+slope) in the working dtype (x16 in the inverse direction, and at least 1e-8*scale (float64) / 1e-4*scale (float32) for the cubic inverse: closed-form roots with a declared window eps=1e-5); containment in [bottom,top] and identity outside the tails are exact",
    "pattern 'spike' in float32: only the exact clauses (no exception, finite, containment, identity in the tails) are judged; float64: everything",
    "strict increase is demanded for points >= 1e-3*width apart whenever the smallest reported slope times the distance exceeds 256 ulp(scale)",
    "knot positions come from a reference softmax/min-width formula and are only used to place grid points",
]

FAMILIES = ("linear", "quadratic", "cubic", "rq")
BOXES = {"unit": (0.0, 1.0, 0.0, 1.0), "nonsquare": (-1.0, 4.0, 1.0, 3.0), "shifted": (2.0, 3.0, -5.0, -1.0)}
TAILS = (1.0, 2.5, 32.0, 1000.0)
DT = {"float64": torch.float64, "float32": torch.float32}


def bounds(tier, seed):
    return {"families": list(FAMILIES), "bins": [1, 2, 3, 4, 5, 8] if tier == "quick" else [1, 2, 3, 4, 5, 6, 8, 12, 16], "boxes": list(BOXES) + ["tails %g" % t for t in TAILS], "patterns": ["zero", "pat1", "pat3", "pat8", "spike (pat1 with one unnormalised height / derivative = 100)"], "pattern_phase": seed % 3,
            "points_per_bin": 8 if tier == "quick" else 24}


def params_for(family, K, tails, pname, seed, N, dtype):
    def p(n, k):
        if pname == "zero":
            v = torch.zeros(n, dtype=torch.float64)
        else:
            scale = {"pat1": 1.0, "pat3": 3.0, "pat8": 8.0, "spike": 1.0}[pname]
            v = pat_values(n, k + 2 * (seed % 3), scale)
            if pname == "spike" and k >= 1 and n > 0:
                v[0] = 100.0  # one extreme (legal) unnormalised height / derivative among moderate ones: exp() of it leaves float32
        return v.to(dtype)[None, :].expand(N, n).contiguous()

    if family == "linear":
        return {"unnormalized_pdf": p(K, 0)}
    if family == "quadratic":
        return {"unnormalized_widths": p(K, 0), "unnormalized_heights": p(K - 1 if tails else K + 1, 1)}
    if family == "cubic":
        return {"unnormalized_widths": p(K, 0), "unnormalized_heights": p(K, 1), "unnorm_derivatives_left": p(1, 2), "unnorm_derivatives_right": p(1, 3)}
    return {"unnormalized_widths": p(K, 0), "unnormalized_heights": p(K, 1), "unnormalized_derivatives": p(K - 1 if tails else K + 1, 2)}


MINS = {"default": None, "tall": (1e-3, 5e-2, 1e-3), "wide": (5e-2, 1e-3, 1e-3), "steep": (1e-3, 1e-3, 5e-2)}  # (min_bin_width, min_bin_height, min_derivative)


def call(family, x, params, inverse, box, tb, mins=None):
    fn = {
        ("linear", False): splines.linear_spline, ("linear", True): splines.unconstrained_linear_spline,
        ("quadratic", False): splines.quadratic_spline, ("quadratic", True): splines.unconstrained_quadratic_spline,
        ("cubic", False): splines.cubic_spline, ("cubic", True): splines.unconstrained_cubic_spline,
        ("rq", False): splines.rational_quadratic_spline, ("rq", True): splines.unconstrained_rational_quadratic_spline,
    }[(family, tb is not None)]
    kw = dict(tails="linear", tail_bound=tb) if tb is not None else dict(left=box[0], right=box[1], bottom=box[2], top=box[3])
    if mins is not None and family != "linear":
        kw.update(min_bin_width=mins[0], min_bin_height=mins[1])
        if family == "rq":
            kw.update(min_derivative=mins[2])
    return fn(x, inverse=inverse, **params, **kw)


def nx(v, d, n, npdt):
    v = npdt(v)
    for _ in range(n):
        v = np.nextafter(v, npdt(d))
    return v


def make_grid(family, K, box, tb, pname, seed, dtype, inverse, per_bin, mins=None):
    """sorted grid in the working dtype (as float64 numpy holding representable values)"""
    npdt = np.float64 if dtype == torch.float64 else np.float32
    if tb is not None:
        l, r, b, t = -tb, tb, -tb, tb
    else:
        l, r, b, t = box
    if family == "linear":
        xk = l + (r - l) * np.arange(K + 1) / K
    else:
        uw = np.zeros(K) if pname == "zero" else pat_values(K, 0 + 2 * (seed % 3), {"pat1": 1.0, "pat3": 3.0, "pat8": 8.0, "spike": 1.0}[pname]).numpy()
        xk = ref_knots_from_widths(uw, l, r, min_w=(mins[0] if mins else 1e-3))
    knots = xk
    if inverse:
        # output-side knots: push the input knots through the real forward in float64
        P = params_for(family, K, tb is not None, pname, seed, K + 1, torch.float64)
        yk, _ = call(family, torch.tensor(np.clip(xk, l, r), dtype=torch.float64), P, False, box, tb, mins)
        knots = np.clip(yk.numpy(), b, t)
        lo, hi = b, t
    else:
        lo, hi = l, r
    pts = set()

    def add(v):
        v = npdt(v)
        if tb is None and (v < npdt(lo) or v > npdt(hi)):
            return
        if np.isfinite(v):
            pts.add(float(v))

    for k in knots:
        for n in range(0, 4):
            add(nx(k, np.inf, n, npdt))
            add(nx(k, -np.inf, n, npdt))
    for a, c in zip(knots[:-1], knots[1:]):
        for j in range(1, per_bin + 1):
            add(a + (c - a) * j / (per_bin + 1.0))
    add(lo)
    add(hi)
    if tb is not None:
        for m in (1.0 + 1e-6, 1.37, 10.0):
            add(hi * m)
            add(lo * m)
    g = np.array(sorted(pts), dtype=np.float64)
    return g, (lo, hi), (npdt(b), npdt(t)) if not inverse else (npdt(l), npdt(r)), knots


def ulp_of(v, dtype):
    npdt = np.float64 if dtype == torch.float64 else np.float32
    return float(np.spacing(npdt(abs(v) if v != 0 else 1.0)))


def check_case(case):
    family, K, boxname, tb, pname, seed, dname, inverse, per_bin = case["family"], case["bins"], case["box"], case["tb"], case["pattern"], case["seed"], case["dtype"], case["inverse"], case.get("per_bin", 8)
    dtype = DT[dname]
    box = BOXES[boxname] if tb is None else None
    out = []
    V = lambda cell, sym, msg: out.append((cell, sym, msg))
    if case.get("mins") == "full":
        # the minimum bin size fills the interval exactly (K bins of 1/K): legal as long as (1/K)*K does not exceed 1 in floating point
        if (1.0 / K) * K > 1.0:
            return out, {"n": 0}
        mins = (1.0 / K, 1.0 / K, 1e-3)
    else:
        mins = MINS[case.get("mins", "default")]
    try:
        g, (lo, hi), (olo, ohi), knots = make_grid(family, K, box, tb, pname, seed, dtype, inverse, per_bin, mins)
    except Exception as e:
        V("grid", "raises %s" % type(e).__name__, "forward on the input knots (all inside the box) raised %s: %s" % (type(e).__name__, str(e)[:100]))
        return out, {"n": 0}
    x = torch.tensor(g, dtype=dtype)
    P = params_for(family, K, tb is not None, pname, seed, len(g), dtype)
    direction = "inverse" if inverse else "forward"
    try:
        y, ld = call(family, x, P, inverse, box, tb, mins)
    except Exception as e:
        V("grid", "raises %s" % type(e).__name__, "%s on the in-domain grid raised %s: %s" % (direction, type(e).__name__, str(e)[:100]))
        return out, {"n": len(g)}
    yv = y.double().numpy()
    ldv = ld.double().numpy()
    gx = x.double().numpy()
    olo, ohi = float(olo), float(ohi)
    scale = max(abs(olo), abs(ohi), ohi - olo)
    u = ulp_of(scale, dtype)
    if inverse:
        # the inverse solves a quadratic/cubic per point; the closed-form roots lose a few bits to cancellation that the
        # reported slope does not account for (measured on the unchanged tree: up to ~500 ulp)
        u = 16 * u
    if family == "cubic" and inverse:
        # closed-form cubic root (cbrt / trigonometric branches) with a declared root window eps=1e-5
        u = max(4 * u, (1e-8 if dtype == torch.float64 else 1e-4) * scale / 64)
    inside = (gx >= lo) & (gx <= hi)
    if not np.all(np.isfinite(yv)) or not np.all(np.isfinite(ldv)):
        i = int(np.argmax(~(np.isfinite(yv) & np.isfinite(ldv))))
        V("grid", "non-finite", "%s(%r) = %r, logabsdet %r" % (direction, gx[i], yv[i], ldv[i]))
        return out, {"n": len(g)}
    slope = np.exp(np.minimum(ldv, 50.0))
    # (d) identity in the tails, exact
    if tb is not None:
        o = ~inside
        if np.any(yv[o] != gx[o]) or np.any(ldv[o] != 0.0):
            i = int(np.where(o & ((yv != gx) | (ldv != 0.0)))[0][0])
            V("tail", "not the identity outside the tail bound", "%s(%r) = %r with logabsdet %r outside tail bound %g" % (direction, gx[i], yv[i], ldv[i], tb))
    # (c) end-points pinned, exact containment
    iy = yv[inside]
    if np.any(iy < olo) or np.any(iy > ohi):
        j = np.where(inside)[0][int(np.argmax((iy < olo) | (iy > ohi)))]
        V("containment", "output leaves the interval", "%s(%r) = %r outside [%r, %r] by %.3g" % (direction, gx[j], yv[j], olo, ohi, max(olo - yv[j], yv[j] - ohi)))
    i_lo = int(np.where(gx == float((np.float64 if dtype == torch.float64 else np.float32)(lo)))[0][0])
    i_hi = int(np.where(gx == float((np.float64 if dtype == torch.float64 else np.float32)(hi)))[0][0])
    if abs(yv[i_lo] - olo) > 64 * u * (1 + slope[i_lo]) or abs(yv[i_hi] - ohi) > 64 * u * (1 + slope[i_hi]):
        V("end-point", "end-point not mapped to end-point", "%s(%r) = %r (expected %r), %s(%r) = %r (expected %r); 64 ulp = %.3g" % (direction, gx[i_lo], yv[i_lo], olo, direction, gx[i_hi], yv[i_hi], ohi, 64 * u))
    # (a) monotone on the sorted grid
    dy = np.diff(yv)
    sl = np.maximum(slope[:-1], slope[1:])
    bad = dy < -64 * u * (1 + sl)
    if np.any(bad):
        i = int(np.argmax(bad))
        V("monotone", "decreasing", "%s(%r) = %r > %s(%r) = %r (drop %.3g, 64 ulp = %.3g)" % (direction, gx[i], yv[i], direction, gx[i + 1], yv[i + 1], -dy[i], 64 * u))
    # strict increase for well-separated points
    width = hi - lo
    ii = np.where(inside)[0]
    step = max(1, len(ii) // 60)
    for a_ in range(0, len(ii), step):
        for b_ in range(a_ + 1, len(ii), step):
            i, j = ii[a_], ii[b_]
            if gx[j] - gx[i] >= 1e-3 * width:
                ms = float(np.min(slope[i : j + 1]))
                if ms * (gx[j] - gx[i]) > 256 * u and not (yv[j] > yv[i]):
                    V("monotone", "not strictly increasing", "%s(%r) = %r and %s(%r) = %r although the points are %.3g apart and the smallest slope between them is %.3g" % (direction, gx[i], yv[i], direction, gx[j], yv[j], gx[j] - gx[i], ms))
                    break
                break
        else:
            continue
    # (b) continuity across knots (and at the tail junction): ulp-neighbours must give neighbouring outputs
    gaps = np.diff(gx)
    close = gaps <= 8 * np.maximum(np.abs(gx[:-1]), 1e-300) * (2.3e-16 if dtype == torch.float64 else 1.2e-7)
    jump = np.abs(dy) > 64 * u * (1 + sl) + sl * gaps
    if np.any(close & jump):
        i = int(np.argmax(close & jump))
        V("continuity", "jump across a knot/junction", "%s jumps by %.3g between %r and %r (%.3g apart; slope %.3g; 64 ulp = %.3g)" % (direction, abs(dy[i]), gx[i], gx[i + 1], gaps[i], sl[i], 64 * u))
    if tb is not None:
        for s_, i_ in ((-1, i_lo), (1, i_hi)):
            if abs(yv[i_] - gx[i_]) > 64 * u * (1 + slope[i_]):
                V("tail", "not continuous at the tail bound", "%s(%r) = %r at the tail junction" % (direction, gx[i_], yv[i_]))
    if pname == "spike" and dtype == torch.float32:
        # an extreme parameter in single precision: accuracy is only claimed for moderate magnitudes (C19), so only the exact
        # clauses are judged here -- no exception, finite values, containment, identity in the tails
        out = [o for o in out if o[1].startswith("raises") or o[1] in ("non-finite", "output leaves the interval", "not the identity outside the tail bound")]
    return out, {"n": len(g), "knots": len(knots) - 2 if len(knots) > 2 else 0}


def units(tier, seed):
    us = []
    for fam in FAMILIES:
        for K in ((1, 2, 3, 4, 5, 8) if tier == "quick" else (1, 2, 3, 4, 5, 6, 8, 12, 16)):
            if fam == "quadratic" and K == 1:
                pass
            for boxname in list(BOXES) + ["tails"]:
                us.append((fam, K, boxname, tier, seed))
    return us


def cases_of(unit):
    fam, K, boxname, tier, seed0 = unit
    for seed in ((seed0,) if tier == "quick" else (seed0, seed0 + 1, seed0 + 2)):  # thorough: all three pattern phases
        yield from _cases_of(fam, K, boxname, tier, seed)


def _cases_of(fam, K, boxname, tier, seed):
    pats = ["zero", "pat1", "pat3"] + ([] if fam == "linear" else ["pat8", "spike"])
    tbs = [None] if boxname != "tails" else (list(TAILS) if tier == "quick" else list(TAILS) + [16.0, 100.0, 1e4])
    for tb in tbs:
        if tb is not None and fam == "quadratic" and K < 2:
            continue  # K-1 = 0 heights: constructor-level restriction of the unconstrained quadratic spline
        for pname in pats:
            for dname in ("float64", "float32"):
                if pname == "pat8" and dname == "float32":
                    continue  # single precision is only claimed for moderate magnitudes (C19)
                for inverse in (False, True):
                    for mins in (("default",) if fam == "linear" else (("default", "tall", "wide", "steep", "full") if fam == "rq" else ("default", "tall", "wide", "full"))):
                        if mins != "default" and (pname in ("zero", "pat8", "spike") or K == 1 and tier == "quick"):
                            continue
                        yield {"family": fam, "bins": K, "box": boxname if tb is None else "unit", "tb": tb, "pattern": pname, "seed": seed, "dtype": dname, "inverse": inverse, "per_bin": 8 if tier == "quick" else 24, "mins": mins}


def run_unit(unit):
    res = new_result()
    for case in cases_of(unit):
        vs, info = check_case(case)
        res["evaluations"] += 1
        res["states"] += info.get("n", 0)
        res["transitions"] += 1
        res["traces"] += 1
        if info.get("knots", 0) > 0 or case["tb"] is not None:
            res["nontrivial"] += 1
        bump(res["outcomes"], "%s:%s:%s:%s" % (case["family"], case["dtype"], "inverse" if case["inverse"] else "forward", "violation" if vs else "ok"))
        for cell, sym, msg in vs:
            boxsig = (("tails=%g" % case["tb"]) if case["tb"] is not None else case["box"]) + ("" if case.get("mins", "default") == "default" else ",mins=" + case["mins"])
            key = "%s_spline|%s|%s|%s:%s|%s" % (case["family"], boxsig, case["dtype"], "inverse" if case["inverse"] else "forward", cell, sym)
            res["violations"].append({"key": key, "case": case, "msg": "%s spline bins=%d %s pattern=%s %s: %s" % (case["family"], case["bins"], boxsig, case["pattern"], case["dtype"], msg)})
        if not res["samples"]:
            res["samples"].append(case)
    return res


def replay(case):
    vs, _ = check_case(case)
    out = []
    for cell, sym, msg in vs:
        boxsig = (("tails=%g" % case["tb"]) if case["tb"] is not None else case["box"]) + ("" if case.get("mins", "default") == "default" else ",mins=" + case["mins"])
        out.append({"key": "%s_spline|%s|%s|%s:%s|%s" % (case["family"], boxsig, case["dtype"], "inverse" if case["inverse"] else "forward", cell, sym), "case": case, "msg": msg})
    return out
