"""Deterministic parameter patterns (the finite alphabet standing in for 'every parameter value')."""
import math

import torch

PHI = [0.6180339887498949, 0.7548776662466927, 0.5497004779019703, 0.8191725133961645, 0.4142135623730951, 0.3819660112501051]


def pat_values(n, j, scale, offset=0, dtype=torch.float64):
    """scale * sin((i+1+offset) * (1+phi_j)) for i < n : quasi-random, deterministic, never exactly 0"""
    i = torch.arange(n, dtype=torch.float64) + 1 + offset
    return (scale * torch.sin(i * (1.0 + PHI[j % len(PHI)]) + 0.1 * (j // len(PHI)))).to(dtype)


def fill(module, pattern, skip=()):
    """pattern: ("init",) keep as constructed; ("zero",) all parameters exactly 0;
    ("pat", j, scale) quasi-random fill over the flattened global parameter index."""
    kind = pattern[0]
    if kind == "init":
        return module
    off = 0
    with torch.no_grad():
        for name, p in module.named_parameters():
            if any(s in name for s in skip):
                off += p.numel()
                continue
            if kind == "zero":
                p.zero_()
            elif kind == "pat":
                _, j, scale = pattern
                p.copy_(pat_values(p.numel(), j, scale, off, p.dtype).reshape(p.shape))
            else:
                raise ValueError(pattern)
            off += p.numel()
    return module


def pat_tensor(shape, j, scale, offset=0, dtype=torch.float64):
    n = 1
    for s in shape:
        n *= s
    return pat_values(n, j, scale, offset, dtype).reshape(shape)
