#!/venv/bin/python
"""Run the repository's pinned test suite on SRC (default /repo) and compare with BASELINE.json's stable_pass list.
usage: baseline.py [src_dir]   exit 0 iff every stable_pass test passes."""
import json, subprocess, sys, tempfile, os
import xml.etree.ElementTree as ET
src = sys.argv[1] if len(sys.argv) > 1 else "/repo"
base = json.load(open("/root/.vp/BASELINE.json"))
with tempfile.TemporaryDirectory() as d:
    x = os.path.join(d, "j.xml")
    env = dict(os.environ); env.pop("BAYESIAINS_NFLOWS_VERIF", None); env["PYTHONPATH"] = src; env["OMP_NUM_THREADS"] = "1"
    subprocess.run(["/venv/bin/python", "-m", "pytest", "-q", "-p", "no:cacheprovider", "--timeout=900",
                    "--continue-on-collection-errors", "-n", "8", "--junitxml=" + x], cwd=src, env=env,
                   stdout=subprocess.DEVNULL, stderr=subprocess.DEVNULL)
    passed = set()
    for tc in ET.parse(x).getroot().iter("testcase"):
        if not any(c.tag in ("failure", "error", "skipped") for c in tc):
            passed.add(tc.get("classname") + "::" + tc.get("name"))
missing = [t for t in base["stable_pass"] if t not in passed]
# the suite has a few randomised tests that fail about 1 run in 40 (also at the pinned commit): re-run the missing ones twice
for _ in range(2):
    if not missing:
        break
    still = []
    for t in missing:
        cls, name = t.split("::")
        path = cls.rsplit(".", 1)[0].replace(".", "/") + ".py::" + cls.rsplit(".", 1)[1] + "::" + name
        env = dict(os.environ); env["PYTHONPATH"] = src; env["OMP_NUM_THREADS"] = "1"
        r = subprocess.run(["/venv/bin/python", "-m", "pytest", "-q", "-p", "no:cacheprovider", path], cwd=src, env=env, stdout=subprocess.DEVNULL, stderr=subprocess.DEVNULL)
        if r.returncode != 0:
            still.append(t)
        else:
            print("  flaky (passed on re-run):", t)
    missing = still
print("stable_pass=%d passed_now=%d missing=%d" % (len(base["stable_pass"]), len(passed), len(missing)))
for m in missing: print("  FAILS:", m)
sys.exit(1 if missing else 0)
