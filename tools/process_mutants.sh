#!/bin/bash
# usage: process_mutants.sh <PID> <checks...>   -- verifies /tmp/wt/<PID>_out/m* and runs the given checks against each
# (several instances may run side by side: each mutant is claimed through a lock directory)
pid=$1; shift
mkdir -p /tmp/mut/results /tmp/mut/locks
for d in /tmp/wt/${pid}_out/m*; do
  m=$(basename $d)
  mkdir /tmp/mut/locks/${pid}_${m} 2>/dev/null || continue
  /verif/tools/mutant.py verify $d > /tmp/mut/results/${pid}_${m}.verify.json 2>&1
  /verif/tools/mutant.py check $d "$@" > /tmp/mut/results/${pid}_${m}.check.json 2>&1
done
echo done $pid
