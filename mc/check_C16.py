"""C16 -- log_prob and transforms are differentiable with correct gradients (E1 product explorer).

subject x configuration x pattern x mode x 3 generic interior rows; for a weighted scalar of the
outputs and log-dets (flows: log_prob) torch.autograd.grad w.r.t. every parameter, the inputs and
the context must succeed, be finite and equal the float64 central finite difference.
"""
import numpy as np
import torch

from mc import catalog as C
from mc import dcatalog as DC
from mc.common import bump, new_result
from mc.harness import dev_signature
from mc.numerics import base_row
from mc.params import pat_tensor
from nflows import transforms as T

PROPERTY = "C16"
RULE = (
    "every transform subject x config (<=1 deviation; thorough <=2) and every flow/distribution config x parameter pattern pat1 (thorough also init) x mode {eval, train, eval after one training-mode call under autograd (subjects with normalisation layers)} on 3 generic "
    "interior rows (no coordinate on a kink): scalar target = fixed-weight sum of outputs and log-dets (flows: log_probs); one case = one (subject,config,pattern,mode) with every scalar "
    "parameter (all if <= 160, else every ceil(n/160)-th, deterministically), every input coordinate and every context coordinate compared with a central finite difference at two step "
    "sizes. Non-trivial = at least one parameter has a non-zero finite-difference derivative."
)
ASSUMPTIONS = [
    "float64; finite differences with steps 1e-6 and 2.5e-7 (relative); a coordinate whose two step sizes disagree, or whose one-sided slopes differ by a step-independent amount (value exactly on a kink: relu(0) behind a zero bias), is a kink and is skipped and counted",
    "the parameter objects present before the first call must still be the module's parameters afterwards (otherwise an optimiser built beforehand never sees a gradient)",
    "agreement to 2e-5 relative + 1e-7*max(1,|f|) absolute; UMNN (quadrature forward, Leibniz-rule backward) to 2e-3 with the smooth integrand and 5e-2 with the default ReLU integrand",
    "as constructed, no two trainable parameters may share one storage",
    "training mode: dropout made reproducible by seeding before every evaluation; ActNorm warmed up with one training forward before differentiating",
]


def bounds(tier, seed):
    return {"config_deviations": 1 if tier == "quick" else 2, "patterns": ["pat1"] + (["init"] if tier == "thorough" else []), "modes": ["eval", "train", "eval-after-train"], "max_scalars_per_case": 160}


def fd_check(f, tensors, names, g_auto, tol_rel, fval, max_scalars=160):
    """returns (violations[(cell, sym, msg)], stats)"""
    out = []
    stats = {"checked": 0, "kinks": 0, "nonzero": 0}
    total = sum(t.numel() for t in tensors)
    f0 = f()
    stride = max(1, -(-total // max_scalars))
    idx = 0
    for t, name, g in zip(tensors, names, g_auto):
        if not t.data.is_contiguous():
            t.data = t.data.contiguous()
        flat = t.data.view(-1)
        gflat = None if g is None else g.reshape(-1)
        for j in range(flat.numel()):
            idx += 1
            kind = "input" if name == "<inputs>" else ("context" if name == "<context>" else "parameter")
            if kind == "parameter" and (idx % stride):
                continue
            old = float(flat[j])
            ds, jumps = [], []
            for h in (1e-6, 2.5e-7):
                hh = h * max(1.0, abs(old))
                flat[j] = old + hh
                fp = f()
                flat[j] = old - hh
                fm = f()
                flat[j] = old
                ds.append((fp - fm) / (2 * hh))
                jumps.append(((fp - f0) - (f0 - fm)) / hh)  # right minus left one-sided slope: O(h) when smooth, constant on a kink
            stats["checked"] += 1
            d1, d2 = ds
            if not (np.isfinite(d1) and np.isfinite(d2)):
                stats["kinks"] += 1
                continue
            if abs(d1 - d2) > 1e-4 * max(abs(d1), abs(d2)) + 1e-6 * max(1.0, abs(fval)):
                stats["kinks"] += 1
                continue
            # a value sitting exactly on a kink (relu(0) behind a zero-initialised bias, a coordinate on a knot): the central
            # differences agree with each other (mean of the two slopes) but the one-sided slopes differ by a step-independent amount
            if abs(jumps[1]) > 1e-4 * max(abs(d1), abs(d2)) + 1e-6 * max(1.0, abs(fval)) and abs(jumps[1]) > 0.5 * abs(jumps[0]):
                stats["kinks"] += 1
                continue
            fd = d2
            if abs(fd) > 1e-7 * max(1.0, abs(fval)):
                stats["nonzero"] += 1
            ga = None if gflat is None else float(gflat[j])
            tol = tol_rel * max(abs(fd), abs(ga or 0.0)) + 1e-7 * max(1.0, abs(fval))
            if ga is None:
                if abs(fd) > tol:
                    out.append((kind, "no gradient for an influential %s" % kind, "%s[%d]: autograd returned None but the finite difference is %.6g" % (name, j, fd)))
                    break
                continue
            if not np.isfinite(ga):
                out.append((kind, "non-finite gradient", "%s[%d]: gradient %r (finite difference %.6g)" % (name, j, ga, fd)))
                break
            if abs(ga - fd) > tol:
                out.append((kind, "gradient differs from the finite difference", "%s[%d]: autograd %.9g, finite difference %.9g (tolerance %.2g)" % (name, j, ga, fd, tol)))
                break
    return out, stats


def _replaced(m, pre):
    """a call that re-creates a trainable parameter leaves the tensor an optimiser holds without any gradient, for ever"""
    post = dict(m.named_parameters())
    gone = [n for n, p in pre if post.get(n) is not p]
    if gone:
        return ("parameter", "trainable parameter replaced by a new object during a call", "parameters %s are not the objects they were before the call: gradients never reach the tensors collected beforehand" % gone[:4])
    return None


def transform_case(sname, cfg, pname, train, seed, res=None):
    s = C.SUBJECTS[sname]
    try:
        after = train == "after"  # "after": one training-mode call with autograd on, then evaluation mode -- gradients in eval must not
        train = bool(train) and not after  # depend on (or trip over) what the training call left behind in buffers
        m = C.materialise(s, cfg, pname, seed, dtype=torch.float64, train=train or after)
    except Exception as e:
        if res is not None:
            bump(res["skipped"], "cannot-construct (C11's subject): %s" % type(e).__name__)
        return None
    shape = s.shape(cfg)
    D = int(np.prod(shape))
    dom = s.moderate_domain(cfg)
    rows = np.stack([base_row(D, dom, seed + 3 * k + 1) for k in range(3)])
    if (dom[0] is None or dom[0] < 0) and (dom[1] is None or dom[1] > 0):
        rows[1, 0] = 0.0  # an exact zero (padding, sparse features): formulas like log|x| or x/|x| have removable singularities there
    x = torch.tensor(rows, dtype=torch.float64).reshape(3, *shape).requires_grad_(True)
    cs = s.ctx_shape(cfg)
    ctx = None if cs is None else torch.stack([pat_tensor(cs, 5 + k, 0.7) for k in range(3)]).requires_grad_(True)
    oshape = s.out_shape(cfg)
    w1 = pat_tensor((3,) + tuple(oshape), 7, 1.0) if s.name != "MultiscaleCompositeTransform" else pat_tensor((3, D), 7, 1.0)
    w2 = pat_tensor((3,), 8, 1.0) + 1.5

    has_cache = any(hasattr(mod, "use_cache") for mod in m.modules())

    def target():
        torch.manual_seed(3)
        if has_cache and not train:
            m.train()  # documented invalidation of the linear cache: the finite differences below perturb parameters in place
            m.eval()
        y, ld = m(x, ctx) if ctx is not None else m(x)
        return (y.reshape(3, -1) * w1.reshape(3, -1)).sum() + (ld * w2).sum()

    pre = list(m.named_parameters())  # what an optimiser constructed before the first call holds
    try:
        if train:
            with torch.no_grad():
                target()  # warm-up: data-dependent initialisation happens here
        if after:
            target()  # a training-mode call under autograd (its graph is dropped here, as after a training step) ...
            m.eval()  # ... then evaluation mode
        val = target()
    except Exception as e:
        if res is not None:
            bump(res["skipped"], "forward raises (other properties): %s" % type(e).__name__)
        return None
    rep = _replaced(m, pre)
    if rep:
        return [rep], {"checked": 0, "kinks": 0, "nonzero": 0}
    params = [p for p in m.parameters() if p.requires_grad]
    names = [n for n, p in m.named_parameters() if p.requires_grad]
    tensors = params + [x] + ([ctx] if ctx is not None else [])
    names = names + ["<inputs>"] + (["<context>"] if ctx is not None else [])
    out = []
    try:
        g = torch.autograd.grad(val, tensors, allow_unused=True)
    except Exception as e:
        return [("backward", "back-propagation raises %s" % type(e).__name__, "autograd.grad raised %s: %s" % (type(e).__name__, str(e)[:140]))], {"checked": 0, "kinks": 0, "nonzero": 0}

    def f():
        with torch.no_grad():
            return float(target())

    tol_rel = (5e-2 if cfg.get("integrand") == "relu" else 2e-3) if s.kind == "umnn" else 2e-5
    return fd_check(f, tensors, names, g, tol_rel, float(val))


def dist_case(dname, cfg, pname, train, seed, res=None):
    d = DC.DSUBJECTS[dname]
    try:
        after = train == "after"
        train = bool(train) and not after
        m = DC.materialise(d, cfg, "pat1" if pname == "patX" else pname, seed, dtype=torch.float64, train=train or after)
        if pname == "patX":
            # an extreme but legal mixture: the logit of the first component of the first feature at -800 (its weight underflows to
            # exactly 0 in a softmax); values are fine, gradients have to stay finite and correct as well
            with torch.no_grad():
                m._made.final_layer.bias[0] = -800.0
    except Exception as e:
        if res is not None:
            bump(res["skipped"], "cannot-construct: %s" % type(e).__name__)
        return None
    x = d.points(cfg, 3, seed).requires_grad_(not d.binary)
    ctx = d.contexts(cfg, 3, seed)
    if ctx is not None:
        ctx.requires_grad_(True)
    w = pat_tensor((3,), 8, 1.0) + 1.5

    has_cache = any(hasattr(mod, "use_cache") for mod in m.modules())

    def target():
        torch.manual_seed(3)
        if has_cache and not train:
            m.train()  # documented invalidation of the linear cache: the finite differences perturb parameters in place
            m.eval()
        return (m.log_prob(x, context=ctx) * w).sum()

    pre = list(m.named_parameters())
    try:
        if train:
            with torch.no_grad():
                target()
        if after:
            target()
            m.eval()
        val = target()
    except Exception as e:
        if res is not None:
            bump(res["skipped"], "log_prob raises (other properties): %s" % type(e).__name__)
        return None
    rep = _replaced(m, pre)
    if rep:
        return [rep], {"checked": 0, "kinks": 0, "nonzero": 0}
    params = [p for p in m.parameters() if p.requires_grad]
    names = [n for n, p in m.named_parameters() if p.requires_grad]
    tensors = params + ([x] if x.requires_grad else []) + ([ctx] if ctx is not None else [])
    names = names + (["<inputs>"] if x.requires_grad else []) + (["<context>"] if ctx is not None else [])
    if not tensors or not val.requires_grad:
        return [], {"checked": 0, "kinks": 0, "nonzero": 0}
    try:
        g = torch.autograd.grad(val, tensors, allow_unused=True)
    except Exception as e:
        return [("backward", "back-propagation raises %s" % type(e).__name__, "autograd.grad raised %s: %s" % (type(e).__name__, str(e)[:140]))], {"checked": 0, "kinks": 0, "nonzero": 0}

    def f():
        with torch.no_grad():
            return float(target())

    return fd_check(f, tensors, names, g, 2e-5, float(val))


def units(tier, seed):
    k = 1 if tier == "quick" else 2
    us = [("t", name, cfg, tier, seed) for name, s in C.SUBJECTS.items() for cfg in C.enum_configs(s, k)]
    us += [("d", name, cfg, tier, seed) for name, d in DC.DSUBJECTS.items() if d.torch_tensor_api for cfg in DC.enum_configs(d, k)]
    return us


def run_unit(unit):
    kind, name, cfg, tier, seed = unit
    res = new_result()
    if kind == "t":
        s = C.SUBJECTS[name]
        pats = [p for p in (("pat1", "init") if tier == "thorough" else ("pat1",)) if p in s.patterns] or ["init"]
        sig = dev_signature(s, cfg)
    else:
        d = DC.DSUBJECTS[name]
        pats = [p for p in (("pat1", "init") if tier == "thorough" else ("pat1",)) if p in d.patterns] or ["init"]
        if name == "MADEMoG":
            pats = pats + ["patX"]
        sig = DC.dev_signature(d, cfg)
    # as constructed (before any dtype conversion, which would silently separate them): no two trainable parameters may live in the
    # same storage -- otherwise neither has a derivative of its own and an optimiser step on one moves the other
    raw = None
    try:
        with torch.random.fork_rng():
            torch.manual_seed(4000 + seed)
            raw = (C.SUBJECTS[name] if kind == "t" else DC.DSUBJECTS[name]).build(cfg)
        seen_ptr = {}
        if isinstance(raw, torch.nn.Module):
            for n_, p_ in raw.named_parameters():
                if p_.numel() == 0:
                    continue
                key_ = p_.untyped_storage().data_ptr()
                if key_ in seen_ptr:
                    res["violations"].append({"key": "%s|%s|construct:parameter|two parameters share one storage" % (name, sig), "case": {"kind": kind, "subject": name, "cfg": cfg, "pattern": "init", "train": False, "seed": seed, "storage": True},
                                              "msg": "%s cfg=%s as constructed: parameters %s and %s live in the same storage" % (name, cfg, seen_ptr[key_], n_)})
                    break
                seen_ptr[key_] = n_
    except Exception:
        pass
    for pname in pats:
        for train in (False, True, "after"):
            if train == "after" and not any(isinstance(mod, (T.BatchNorm, torch.nn.BatchNorm1d, torch.nn.BatchNorm2d, T.ActNorm)) for mod in (raw.modules() if isinstance(raw, torch.nn.Module) else [])):
                continue  # (only layers that keep statistics from training calls can make a difference)
            r = (transform_case if kind == "t" else dist_case)(name, cfg, pname, train, seed, res)
            if r is None:
                continue
            vs, st = r
            res["evaluations"] += 1
            res["states"] += 1
            res["transitions"] += 4 * st["checked"] + 2
            res["traces"] += st["checked"]
            if st["nonzero"] > 0:
                res["nontrivial"] += 1
            if st["kinks"]:
                bump(res["skipped"], "kink coordinates (two step sizes disagree)", st["kinks"])
            bump(res["outcomes"], "%s:%s:%s" % ("transform" if kind == "t" else "dist", ("eval-after-train" if train == "after" else ("train" if train else "eval")), "violation" if vs else "ok"))
            for cell, sym, msg in vs:
                res["violations"].append({"key": "%s|%s|%s:%s|%s" % (name, sig, ("eval-after-train" if train == "after" else ("train" if train else "eval")), cell, sym), "case": {"kind": kind, "subject": name, "cfg": cfg, "pattern": pname, "train": train, "seed": seed},
                                          "msg": "%s cfg=%s pattern=%s %s mode: %s" % (name, cfg, pname, ("eval-after-train" if train == "after" else ("train" if train else "eval")), msg)})
            if not res["samples"]:
                res["samples"].append({"subject": name, "cfg": cfg, "pattern": pname, "mode": ("eval-after-train" if train == "after" else ("train" if train else "eval")), "scalars_checked": st["checked"]})
    return res


def replay(case):
    r = (transform_case if case["kind"] == "t" else dist_case)(case["subject"], case["cfg"], case["pattern"], case["train"], case["seed"])
    if r is None:
        return []
    if case["kind"] == "t":
        sig = dev_signature(C.SUBJECTS[case["subject"]], case["cfg"])
    else:
        sig = DC.dev_signature(DC.DSUBJECTS[case["subject"]], case["cfg"])
    return [{"key": "%s|%s|%s:%s|%s" % (case["subject"], sig, ("eval-after-train" if case["train"] == "after" else ("train" if case["train"] else "eval")), cell, sym), "case": case, "msg": msg} for cell, sym, msg in r[0]]
