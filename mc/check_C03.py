"""C03 -- a flow's log_prob is a normalised probability density (E3 program explorer + quadrature).

All well-typed programs (compositions) of library transforms up to a size bound over a typed leaf
alphabet (types = data spaces R, (0,1), (0,inf), (-1,1)), ending in R^D (the support of every
library base); each flow's exp(log_prob) is integrated over its data space by a deterministic
midpoint rule in a smooth re-parametrisation of that space, at two resolutions; independently
log_prob must equal a reference base density at the transformed point plus the returned log-det.
"""
import itertools
import math

import numpy as np
import torch
from torch.nn import functional as F

from mc import catalog as C
from mc.common import bump, new_result
from mc.dcatalog import LinEnc, Emb
from mc.params import fill, pat_tensor
from nflows import distributions as D
from nflows import flows as FL
from nflows import transforms as T

PROPERTY = "C03"
RULE = (
    "1-D: every well-typed sequence of <=2 (thorough <=3) leaves from a 60-leaf typed alphabet (33 transforms incl. non-default LogTanh cut points and non-default minimum bin heights/widths + their InverseTransform wrappers where the inverse is defined on a "
    "full data space) that ends in R, x StandardNormal base (single-leaf programs additionally x {DiagonalNormal, ConditionalDiagonalNormal with 2 context rows, embedding net}); "
    "2-D: every sequence of <=2 leaves from a 27-leaf alphabet over R^2 (all coupling classes with both masks, autoregressive classes, the linear family, permutations, lifted "
    "elementwise transforms, two InverseTransform wrappers) x StandardNormal. Parameters: pattern pat1 (conditioners damped). Non-trivial = >=2 leaves or a non-standard base."
)
ASSUMPTIONS = [
    "quadrature: midpoint rule in a re-parametrised variable (R: x = sinh u up to |x| = 1e6, 1e150 for programs containing LogTanh, whose inverse grows like exp(z/alpha); (0,1): x = sigmoid u; (0,inf): x = exp u; (-1,1): x = tanh u) with n and n/2 points; "
    "a flow fails iff |I - 1| > max(floor, 10 |I_n - I_n/2|); floor 1-D: 4e-4 (2e-3 when the density is discontinuous: LeakyReLU, linear splines), halved in thorough; 2-D: 3e-3 (2e-2 discontinuous), x0.4 in thorough",
    "leaves whose range is bounded by a declared clamp (Logit / CompositeCDFTransform: |y| <= 13.8/T) are only allowed as the last leaf; LogTanh only as the first leaf (its inverse exceeds float64 behind another transform)",
    "reference base densities (standard / diagonal / conditional-diagonal normal) are evaluated in numpy from the base's public mean() and parameters only for the StandardNormal and DiagonalNormal cases",
    "UMNN transformers are excluded: they are onto R only if the learned integrand does not decay (a condition on the weights, not pinned by the library; the inverse is declared on [-20, 20])",
]

TYPES = ("R", "U", "P", "S")


def bounds(tier, seed):
    return {"max_leaves_1d": 2 if tier == "quick" else 3, "max_leaves_2d": 2, "n_1d": 2 ** 17 if tier == "quick" else 2 ** 19, "n_2d": 384 if tier == "quick" else 768}


# ----------------------------------------------------------------------------- 1-D leaves


def leaves_1d():
    """name -> (builder, in_type, out_type)"""
    L = {}

    def cdf(cls, tails):
        return lambda: getattr(T, cls)([1], num_bins=3, tails="linear" if tails else None, tail_bound=2.5)

    L["Affine"] = (lambda: T.PointwiseAffineTransform(shift=0.3, scale=-1.7), "R", "R")
    L["LeakyReLU"] = (lambda: T.LeakyReLU(0.3), "R", "R")
    L["LeakyReLU:steep"] = (lambda: T.LeakyReLU(2.5), "R", "R")  # a negative slope above 1 is legal (max(x, s x) is no longer the map)
    L["LogTanh"] = (lambda: T.LogTanh(1), "R", "R")
    L["LogTanh:c0.5"] = (lambda: T.LogTanh(0.5), "R", "R")
    L["LogTanh:c2"] = (lambda: T.LogTanh(2.0), "R", "R")
    for cls in ("PiecewiseQuadraticCDF", "PiecewiseCubicCDF", "PiecewiseRationalQuadraticCDF"):
        L[cls + ":tails,tall"] = ((lambda cls=cls: getattr(T, cls)([1], num_bins=3, tails="linear", tail_bound=2.5, min_bin_height=5e-2)), "R", "R")
        L[cls + ":box,wide"] = ((lambda cls=cls: getattr(T, cls)([1], num_bins=3, min_bin_width=5e-2)), "U", "U")
    for cls in ("PiecewiseLinearCDF", "PiecewiseQuadraticCDF", "PiecewiseCubicCDF", "PiecewiseRationalQuadraticCDF"):
        L[cls + ":tails"] = (cdf(cls, True), "R", "R")
        L[cls + ":box"] = (cdf(cls, False), "U", "U")
    L["LULinear"] = (lambda: T.LULinear(1, identity_init=False), "R", "R")
    L["QRLinear"] = (lambda: T.QRLinear(1, num_householder=1), "R", "R")
    L["SVDLinear"] = (lambda: T.SVDLinear(1, num_householder=2, identity_init=False), "R", "R")
    L["NaiveLinear"] = (lambda: T.NaiveLinear(1, orthogonal_initialization=False), "R", "R")
    L["ActNorm"] = (lambda: T.ActNorm(1), "R", "R")
    L["BatchNorm"] = (lambda: T.BatchNorm(1), "R", "R")
    L["MaskedAffineAR"] = (lambda: T.MaskedAffineAutoregressiveTransform(1, 3, num_blocks=1), "R", "R")
    L["MaskedRQAR:tails"] = (lambda: T.MaskedPiecewiseRationalQuadraticAutoregressiveTransform(1, 3, num_bins=3, tails="linear", tail_bound=2.5, num_blocks=1), "R", "R")
    L["MaskedLinearAR:box"] = (lambda: T.MaskedPiecewiseLinearAutoregressiveTransform(3, 1, 3, num_blocks=1), "U", "U")
    L["MaskedCubicAR:box"] = (lambda: T.MaskedPiecewiseCubicAutoregressiveTransform(3, 1, 3, num_blocks=1), "U", "U")
    # type "B": onto [-13.8/T, 13.8/T] only (declared clamp eps=1e-6 of Sigmoid.inverse): fine in front of a Gaussian base
    # (the missing mass is < 1e-19) but not in front of a contracting transform, so B is only allowed as the final type
    L["CompositeCDF"] = (lambda: T.CompositeCDFTransform(T.Sigmoid(), T.PiecewiseRationalQuadraticCDF([1], num_bins=3)), "R", "B")
    L["Identity"] = (lambda: T.IdentityTransform(), "R", "R")
    L["Sigmoid"] = (lambda: T.Sigmoid(temperature=1.5), "R", "U")
    L["CauchyCDF"] = (lambda: T.nonlinearities.CauchyCDF(), "R", "U")
    L["Logit"] = (lambda: T.Logit(temperature=1.5), "U", "B")
    L["CauchyCDFInverse"] = (lambda: T.nonlinearities.CauchyCDFInverse(), "U", "R")
    L["Exp"] = (lambda: T.Exp(), "R", "P")
    L["Tanh"] = (lambda: T.Tanh(), "R", "S")
    # one level of InverseTransform (types flip)
    inv = {}
    for name, (b, ti, to) in L.items():
        if name in ("Identity", "BatchNorm"):
            continue
        if name == "CompositeCDF":
            inv["Inv(CompositeCDF)"] = ((lambda b=b: T.InverseTransform(b())), "R", "B")
            continue
        if name == "Logit":
            continue  # = Sigmoid
        if name == "Tanh":
            # atanh of a float64 in (-1, 1) is at most 18.7: like the clamp-bounded leaves, only allowed as the last leaf
            inv["Inv(Tanh)"] = ((lambda b=b: T.InverseTransform(b())), "S", "B")
            continue
        inv["Inv(" + name + ")"] = ((lambda b=b: T.InverseTransform(b())), to, "B" if name == "Sigmoid" else ti)
    L.update(inv)
    return L


def bn_post(m):
    for mod in m.modules():
        if isinstance(mod, T.BatchNorm):
            with torch.no_grad():
                mod.running_mean.fill_(0.4)
                mod.running_var.fill_(1.7)
        if isinstance(mod, T.NaiveLinear):
            with torch.no_grad():
                mod._weight.add_(1.5)


def build_flow(leaf_builders, features, base="standard", seed=0):
    torch.manual_seed(50 + seed)
    parts = [b() for b in leaf_builders]
    tr = parts[0] if len(parts) == 1 else T.CompositeTransform(parts)
    emb = None
    if base == "standard":
        bd = D.StandardNormal([features])
    elif base == "diag":
        bd = D.DiagonalNormal([features])
    elif base == "conditional":
        bd = D.ConditionalDiagonalNormal([features], context_encoder=LinEnc(2, 2 * features))
    elif base == "conditional+emb":
        bd = D.ConditionalDiagonalNormal([features], context_encoder=LinEnc(2, 2 * features))
        emb = Emb(3, 2)
    flow = FL.Flow(tr, bd, embedding_net=emb)
    fill(flow, ("pat", seed % 3, 0.8))
    with torch.no_grad():
        for mod in flow.modules():
            net = getattr(mod, "autoregressive_net", None) or getattr(mod, "transform_net", None)
            last = getattr(net, "final_layer", None) if net is not None else None
            if last is not None:
                last.weight.mul_(0.3)
                last.bias.mul_(0.3)
    bn_post(flow)
    return flow.double().eval()


def umap(tp, xmax=1e13):
    """(ua, ub, x(u), dx/du(u)): the data space tp as the image of a uniform parameter u"""
    if tp == "R":
        Umax = math.asinh(xmax)
        return -Umax, Umax, np.sinh, np.cosh
    if tp == "U":
        sg = lambda u: 1 / (1 + np.exp(-u))
        return -40.0, 40.0, sg, lambda u: sg(u) * (1 - sg(u))
    if tp == "P":
        # x = exp(u) over the whole float64 range: chains with Cauchy-type leaves have 1/x tails in log x
        return -700.0, 700.0, np.exp, np.exp
    if tp == "S":
        return -20.0, 20.0, np.tanh, lambda u: 1 - np.tanh(u) ** 2
    raise ValueError(tp)


def grid(tp, n, xmax=1e13, urange=None):
    """(x, w, u): midpoints, weights and parameters for the data space tp (optionally only the part u in urange)"""
    ua, ub, fx, fw = umap(tp, xmax)
    if urange is not None:
        ua, ub = max(ua, urange[0]), min(ub, urange[1])
    du = (ub - ua) / n
    u = ua + du * (np.arange(n) + 0.5)
    return fx(u), fw(u) * du, u


DISC = ("LeakyReLU", "PiecewiseLinear", "MaskedLinearAR", "PiecewiseLinearCpl", "LogTanh")  # LogTanh: the slopes of its two branches differ at the cut point (the density jumps there)


def is_disc(names):
    return any(d in k for k in names for d in DISC)


def integrate_flow_1d(flow, tp, n, ctx=None, xmax=1e13):
    """midpoint rule at n and n/2 points. A first pass over the whole parameter range locates the part that carries the mass
    (all cells contributing more than 1e-12 of the total, so that at most ~1e-7 is left outside); the two evaluation passes then
    spend all their points there -- this is what keeps densities with jumps (kinked / piecewise-linear leaves) resolved."""

    def mass(urange, nn_):
        x, w, u = grid(tp, nn_, xmax, urange)
        keep = w > 0
        if tp in ("U", "S"):
            lo, hi = (0.0, 1.0) if tp == "U" else (-1.0, 1.0)
            keep &= (x > lo) & (x < hi)
        xt = torch.tensor(x[keep], dtype=torch.float64)[:, None]
        c = None if ctx is None else ctx.expand(xt.shape[0], -1)
        with torch.no_grad():
            lp = flow.log_prob(xt, context=c).numpy()
        p = np.exp(lp)
        p[~np.isfinite(p)] = 0.0
        return p * w[keep], u[keep]

    c0, u0 = mass(None, n // 2)
    tot = float(np.sum(c0))
    urange, outside = None, 0.0
    if tot > 0 and np.isfinite(tot):
        big = np.nonzero(c0 > 1e-12 * tot)[0]
        du0 = u0[1] - u0[0]
        urange = (float(u0[big[0]] - 2 * du0), float(u0[big[-1]] + 2 * du0))
        outside = float(np.sum(c0[(u0 < urange[0]) | (u0 > urange[1])]))
    res = [float(np.sum(mass(urange, nn_)[0])) + outside for nn_ in (n, n // 2)]
    return res[0], res[1]


def check_flow_1d(names, base, seed, n):
    L = leaves_1d()
    out = []
    tp = L[names[0]][1]
    flow = build_flow([L[k][0] for k in names], 1, base, seed)
    ctxs = [None]
    if base.startswith("conditional"):
        dim = 3 if base.endswith("emb") else 2
        ctxs = [pat_tensor((1, dim), 4 + k, 0.8) for k in range(2)]
    label = " -> ".join(names) + " | base " + base
    for k, ctx in enumerate(ctxs):
        try:
            heavy = names[0].startswith("LogTanh")  # only the forward LogTanh (always the first leaf) has the exp(z/alpha) tails
            xmax = 1e150 if heavy else 1e6
            try:
                I, I2 = integrate_flow_1d(flow, tp, 2 * n if heavy else n, ctx, xmax=xmax)
            except Exception:
                if not any(k.startswith("Inv(LogTanh") for k in names):
                    raise
                # the inverse of LogTanh is exp(x/alpha)/beta: it overflows float64 beyond |x| ~ 250 (inf/nan reach the next leaf,
                # which may raise) while the density is exactly 0 long before; integrate over |x| <= 60 instead
                I, I2 = integrate_flow_1d(flow, tp, n, ctx, xmax=60.0)  # (LogTanh with cut 0.5: alpha is smaller, tails even heavier, still < 1e13 for |z| <= 8)
        except Exception as e:
            out.append(("evaluate", "log_prob raises %s on the data space" % type(e).__name__, "%s: log_prob on the %s grid raised %s: %s" % (label, tp, type(e).__name__, str(e)[:100])))
            return out
        floor = (1e-3 if is_disc(names) else 2e-4) * (1.0 if n >= 2 ** 19 else 2.0)
        if not (abs(I - 1) <= max(floor, 10 * abs(I - I2))):
            out.append(("normalisation", "density does not integrate to one", "%s (context row %d): integral of exp(log_prob) over %s = %.8g (half resolution %.8g)" % (label, k, tp, I, I2)))
            return out
    # reference decomposition: log_prob = base density at T(x) + returned log-det
    if base in ("standard", "diag"):
        pts = {"R": [-1.3, 0.2, 2.1], "U": [0.15, 0.6, 0.93], "P": [0.3, 1.4, 5.0], "S": [-0.7, 0.1, 0.8]}[tp]
        x = torch.tensor(pts, dtype=torch.float64)[:, None]
        with torch.no_grad():
            lp = flow.log_prob(x)
            z, ld = flow._transform(x)
            if base == "standard":
                ref = -0.5 * z[:, 0] ** 2 - 0.5 * math.log(2 * math.pi)
            else:
                mu = flow._distribution.mean().reshape(-1)[0]
                # diagonal normal: the scale is recovered from the density at the mean (public API only)
                lpm = flow._distribution.log_prob(mu.reshape(1, 1))[0]
                sigma = math.exp(-float(lpm) - 0.5 * math.log(2 * math.pi))
                ref = -0.5 * ((z[:, 0] - mu) / sigma) ** 2 - math.log(sigma) - 0.5 * math.log(2 * math.pi)
        if float((lp - (ref + ld)).abs().max()) > 1e-9 * (1 + float(lp.abs().max())):
            out.append(("decomposition", "log_prob is not base log-density at the transformed point plus the log-det", "%s: difference %.3g" % (label, float((lp - (ref + ld)).abs().max()))))
    return out


def programs_1d(maxlen):
    L = leaves_1d()
    names = list(L)
    out = []
    for n in range(1, maxlen + 1):
        for seq in itertools.product(names, repeat=n):
            ok = all(L[a][2] == L[b][1] for a, b in zip(seq[:-1], seq[1:])) and L[seq[-1]][2] in ("R", "B")
            if not ok:
                continue
            # LogTanh's inverse grows like exp(exp(.)): behind another transform the data-space mass sits beyond what float64 can
            # represent (x within 1e-17 of an end-point, or > 1e308), so LogTanh is only enumerated as the first leaf
            if any(k.startswith("LogTanh") for k in seq[1:]):
                continue
            # skip pure double negations that only cost time (leaf followed by its own inverse wrapper)
            if any(b == "Inv(" + a + ")" or a == "Inv(" + b + ")" for a, b in zip(seq[:-1], seq[1:])):
                continue
            out.append(list(seq))
    return out


# ----------------------------------------------------------------------------- 2-D leaves (all over R^2)


def leaves_2d():
    L = {}
    rn = C.resnet(None, "tanh")
    for mask, tag in (([1, 0], "10"), ([0, 1], "01")):
        L["AffineCoupling:" + tag] = lambda mask=mask: T.AffineCouplingTransform(mask, rn)
        L["AdditiveCoupling:" + tag] = lambda mask=mask: T.AdditiveCouplingTransform(mask, rn)
        for cls in ("PiecewiseLinearCouplingTransform", "PiecewiseQuadraticCouplingTransform", "PiecewiseCubicCouplingTransform", "PiecewiseRationalQuadraticCouplingTransform"):
            L[cls.replace("CouplingTransform", "Cpl") + ":" + tag] = lambda mask=mask, cls=cls: getattr(T, cls)(mask, rn, num_bins=3, tails="linear", tail_bound=2.5)
    # couplings that also transform their identity feature (its log-det must be counted in both directions)
    L["PiecewiseRationalQuadraticCpl:10:uncond"] = lambda: T.PiecewiseRationalQuadraticCouplingTransform([1, 0], rn, num_bins=3, tails="linear", tail_bound=2.5, apply_unconditional_transform=True)
    L["PiecewiseQuadraticCpl:01:uncond"] = lambda: T.PiecewiseQuadraticCouplingTransform([0, 1], rn, num_bins=3, tails="linear", tail_bound=2.5, apply_unconditional_transform=True)
    L["MaskedAffineAR"] = lambda: T.MaskedAffineAutoregressiveTransform(2, 4, num_blocks=1, activation=torch.tanh)
    L["MaskedQuadraticAR"] = lambda: T.MaskedPiecewiseQuadraticAutoregressiveTransform(2, 4, num_bins=3, tails="linear", tail_bound=2.5, num_blocks=1, activation=torch.tanh)
    L["MaskedRQAR"] = lambda: T.MaskedPiecewiseRationalQuadraticAutoregressiveTransform(2, 4, num_bins=3, tails="linear", tail_bound=2.5, num_blocks=1, activation=torch.tanh)
    L["LULinear"] = lambda: T.LULinear(2, identity_init=False)
    L["QRLinear"] = lambda: T.QRLinear(2, num_householder=3)
    L["SVDLinear"] = lambda: T.SVDLinear(2, num_householder=2, identity_init=False)
    L["NaiveLinear"] = lambda: T.NaiveLinear(2)
    L["Reverse"] = lambda: T.ReversePermutation(2)
    L["RandomPerm"] = lambda: T.RandomPermutation(2)
    L["Affine"] = lambda: T.PointwiseAffineTransform(shift=torch.tensor([0.3, -0.4]), scale=torch.tensor([1.7, -0.6]))
    L["LeakyReLU"] = lambda: T.LeakyReLU(0.4)
    L["RQCDF:tails"] = lambda: T.PiecewiseRationalQuadraticCDF([2], num_bins=3, tails="linear", tail_bound=2.5)
    L["ActNorm"] = lambda: T.ActNorm(2)
    L["BatchNorm"] = lambda: T.BatchNorm(2)

    L["Inv(MaskedAffineAR)"] = lambda: T.InverseTransform(T.MaskedAffineAutoregressiveTransform(2, 4, num_blocks=1, activation=torch.tanh))
    L["Inv(AffineCoupling:10)"] = lambda: T.InverseTransform(T.AffineCouplingTransform([1, 0], rn))
    return L


def check_flow_2d(names, seed, n):
    L = leaves_2d()
    out = []
    flow = build_flow([L[k] for k in names], 2, "standard", seed)
    label = " -> ".join(names)
    res = []
    for nn_ in (n, n // 2):
        Umax = math.asinh(400.0)
        du = 2 * Umax / nn_
        u = -Umax + du * (np.arange(nn_) + 0.5)
        x1, w1 = np.sinh(u), np.cosh(u) * du
        X0, X1 = np.meshgrid(x1, x1, indexing="ij")
        P = np.stack([X0.reshape(-1), X1.reshape(-1)], 1)
        W = np.outer(w1, w1).reshape(-1)
        tot = 0.0
        for i in range(0, P.shape[0], 2 ** 17):
            xt = torch.tensor(P[i : i + 2 ** 17], dtype=torch.float64)
            try:
                with torch.no_grad():
                    lp = flow.log_prob(xt).numpy()
            except Exception as e:
                return [("evaluate", "log_prob raises %s on the data space" % type(e).__name__, "%s: %s: %s" % (label, type(e).__name__, str(e)[:100]))]
            p = np.exp(lp)
            p[~np.isfinite(p)] = 0.0
            tot += float(np.sum(p * W[i : i + 2 ** 17]))
        res.append(tot)
    I, I2 = res
    floor = (2e-2 if is_disc(names) else 3e-3) * (1.0 if n < 700 else 0.4)
    if not (abs(I - 1) <= max(floor, 10 * abs(I - I2))):
        out.append(("normalisation", "density does not integrate to one", "%s: 2-D integral of exp(log_prob) = %.6g (half resolution %.6g)" % (label, I, I2)))
    x = torch.tensor([[-1.3, 0.4], [0.2, -2.0], [2.1, 0.9]], dtype=torch.float64)
    with torch.no_grad():
        lp = flow.log_prob(x)
        z, ld = flow._transform(x)
        ref = -0.5 * (z ** 2).sum(1) - math.log(2 * math.pi)
    if float((lp - (ref + ld)).abs().max()) > 1e-9 * (1 + float(lp.abs().max())):
        out.append(("decomposition", "log_prob is not base log-density at the transformed point plus the log-det", "%s: difference %.3g" % (label, float((lp - (ref + ld)).abs().max()))))
    return out


def programs_2d(maxlen):
    names = list(leaves_2d())
    out = []
    for n in range(1, maxlen + 1):
        for seq in itertools.product(names, repeat=n):
            out.append(list(seq))
    return out


# ----------------------------------------------------------------------------- units


def all_cases(tier, seed):
    cs = []
    for prog in programs_1d(2 if tier == "quick" else 3):
        cs.append({"dim": 1, "prog": prog, "base": "standard"})
        if len(prog) == 1:
            for b in ("diag", "conditional", "conditional+emb"):
                if b != "diag" and "AR" in prog[0]:
                    continue  # these leaves are built without context features; a context-carrying flow needs conditioned leaves (C04/C12 cover those)
                cs.append({"dim": 1, "prog": prog, "base": b})
    for prog in programs_2d(2):
        cs.append({"dim": 2, "prog": prog, "base": "standard"})
    return cs


def units(tier, seed):
    cs = all_cases(tier, seed)
    k = 64 if tier == "quick" else 256
    return [(cs[i::k], tier, seed) for i in range(k)]


def run_case(c, tier, seed):
    if c["dim"] == 1:
        return check_flow_1d(c["prog"], c["base"], seed, 2 ** 17 if tier == "quick" else 2 ** 19)
    return check_flow_2d(c["prog"], seed, 384 if tier == "quick" else 768)


def key_of(c, cell, sym):
    return "flow%dd|%s|%s|%s|%s" % (c["dim"], "+".join(sorted(set(n.split(":")[0] for n in c["prog"]))), c["base"], cell, sym)


def run_unit(unit):
    cs, tier, seed = unit
    res = new_result()
    for c in cs:
        try:
            vs = run_case(c, tier, seed)
        except Exception as e:
            vs = [("construct", "flow cannot be built/evaluated: %s" % type(e).__name__, "%s: %s" % (c["prog"], str(e)[:120]))]
        res["evaluations"] += 1
        res["states"] += 1
        res["transitions"] += 3
        res["traces"] += 1
        if len(c["prog"]) >= 2 or c["base"] != "standard":
            res["nontrivial"] += 1
        bump(res["outcomes"], "%dd:len%d:%s" % (c["dim"], len(c["prog"]), "violation" if vs else "ok"))
        for cell, sym, msg in vs:
            res["violations"].append({"key": key_of(c, cell, sym), "case": {"c": c, "tier": tier, "seed": seed}, "msg": msg})
        if not res["samples"] and len(c["prog"]) >= 2:
            res["samples"].append(c)
    return res


def replay(case):
    c = case["c"]
    return [{"key": key_of(c, cell, sym), "case": case, "msg": msg} for cell, sym, msg in run_case(c, case["tier"], case["seed"])]
