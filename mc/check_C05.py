"""C05 -- base distributions are normalised, sample their own density, report true means (E1 + RNG seam).

Normalisation by exact summation (Bernoulli) or deterministic quadrature (1-D / 2-D joint, factor-wise
beyond); mean() against the quadrature first moment; sampling as an exact push-forward identity on
an injected quantile lattice (torch.randn / torch.rand seams) instead of a statistical test.
"""
import itertools
import math
from unittest import mock

import numpy as np
import torch

from mc import dcatalog as DC
from mc.common import bump, new_result
from mc.params import pat_tensor
from mc.quad import cdf_1d, integrate_1d, integrate_2d
from nflows.distributions import uniform as U
from nflows.utils import torchutils

PROPERTY = "C05"
RULE = (
    "StandardNormal / DiagonalNormal / ConditionalDiagonalNormal x event shapes {[1],[2],[3],[2,2]} x encoder {identity, linear} x patterns x context rows {1,2,3}: joint quadrature for "
    "<=2 coordinates, additivity on a 3^D grid + per-factor 1-D quadrature beyond; mean() vs first moment and documented shape; lattice push-forward of sample(); sample_and_log_prob(2, k rows) against log_prob row by row. "
    "ConditionalIndependentBernoulli: exact sum over {0,1}^n (n<=4), mean, rand-lattice frequencies. MADEMoG: features {1,2} x mixture sizes {1,2,3} x block types x context rows, quadrature + all sampler paths. "
    "BoxUniform (vector boxes and matrix-/image-shaped boxes with all axes as one event), MG1Uniform, LotkaVolterraOscillating: quadrature / factor-wise, samples inside the support. gaussian_kde_log_eval: N in {1,2,5}, D in {1,2}. "
    "One case = one (object, context row) pair; non-trivial = parameters differ from the as-constructed ones or >=2 context rows."
)
ASSUMPTIONS = [
    "quadrature: midpoint rule on a sinh-stretched grid, n and n/2 points; a case fails iff |I-1| > max(1e-6, 10*|I_n - I_n/2|) (2-D: 1e-4 floor; discontinuous uniform densities: 5e-2)",
    "sampling clause replaced by its deterministic push-forward form: with the m mid-quantiles of N(0,1) (resp. U(0,1)) injected as noise, the k-th sample must sit at the (k+1/2)/m quantile of the density; torch.randn/rand themselves are trusted",
    "the MADE mixture's sampler: every path of component choices x 2 noise values per feature is forced through the torch.multinomial / torch.randn seams in one sample() call; the sampler's own conditional mixtures (weights = the probabilities handed to multinomial, means/scales solved from the two noise values) must reproduce exp(log_prob) at all (2K)^D drawn points to 5e-3 in log density (float32 sampler vs float64 density); one component and one feature additionally as a 32-quantile CDF push-forward",
]

M = 32  # lattice size


def bounds(tier, seed):
    return {"lattice": M, "quadrature_points_1d": 2 ** 15 if tier == "quick" else 2 ** 17, "quadrature_points_2d": 384 if tier == "quick" else 768}


def norm_ppf(p):
    # Acklam's rational approximation refined by one Newton step on erf (float64 accurate to ~1e-15)
    return float(torch.special.ndtri(torch.tensor(p, dtype=torch.float64)))


def tol_ok(I, I2, floor):
    return abs(I - 1.0) <= max(floor, 10 * abs(I - I2))


# ----------------------------------------------------------------------------- generic density checks


def check_density(name, lp_row, D, xmax, tier, box=None, floor1=1e-6, floor2=1e-4, expect_mean=None, mean_tol=1e-6, add_tol=1e-9):
    """lp_row: callable [m, D] float64 -> [m] (one context row fixed). returns list[(cell, sym, msg)]"""
    out = []
    n1 = 2 ** 15 if tier == "quick" else 2 ** 17
    n2 = 384 if tier == "quick" else 768
    if D == 1:
        lo, hi = (box[0] if box else (None, None))
        I, I2, mom = integrate_1d(lambda t: lp_row(t[:, None]), n=n1, xmax=xmax, lo=lo, hi=hi)
        if not tol_ok(I, I2, floor1):
            out.append(("1d", "total probability differs from one", "%s: integral of exp(log_prob) = %.9g (half-resolution %.9g)" % (name, I, I2)))
        elif expect_mean is not None and abs(mom - float(expect_mean[0])) > mean_tol * max(1.0, abs(mom)) + 10 * abs(I - I2):
            out.append(("1d", "mean() differs from the expectation", "%s: mean() = %r, first moment %.9g" % (name, float(expect_mean[0]), mom)))
        return out
    if D == 2:
        I, I2, mom = integrate_2d(lp_row, n=n2, xmax=xmax, box=box)
        if not tol_ok(I, I2, floor2):
            out.append(("2d", "total probability differs from one", "%s: 2-D integral of exp(log_prob) = %.9g (half-resolution %.9g)" % (name, I, I2)))
        elif expect_mean is not None and float(np.max(np.abs(mom - np.asarray(expect_mean)))) > 1e-4 + 10 * abs(I - I2):
            out.append(("2d", "mean() differs from the expectation", "%s: mean() = %s, first moments %s" % (name, list(map(float, expect_mean)), mom.tolist())))
        return out
    # D > 2: additivity on a 3^D grid around a base point, then per-factor 1-D integrals
    base = torch.tensor([0.3 * ((-1) ** k) + 0.1 * k for k in range(D)], dtype=torch.float64)
    if box:
        base = torch.tensor([0.5 * (b[0] + b[1]) + 0.1 * (b[1] - b[0]) * ((-1) ** k) for k, b in enumerate(box)], dtype=torch.float64)
    lb = float(lp_row(base[None])[0])

    def g(k, t):
        X = base[None].repeat(t.shape[0], 1)
        X[:, k] = t
        return lp_row(X) - lb

    offs = [-0.7, 0.0, 0.9] if not box else None
    pts = []
    for combo in itertools.product(range(3), repeat=D):
        if box:
            pts.append([box[k][0] + (box[k][1] - box[k][0]) * (0.2 + 0.3 * c) for k, c in enumerate(combo)])
        else:
            pts.append([float(base[k]) + offs[c] for k, c in enumerate(combo)])
    P = torch.tensor(pts, dtype=torch.float64)
    full = lp_row(P)
    summed = lb + sum(g(k, P[:, k]) for k in range(D))
    if float((full - summed).abs().max()) > add_tol * (1 + float(full.abs().max())):
        out.append(("factorised", "log_prob is not additive over coordinates", "%s: log_prob differs from the sum of its one-coordinate sections by %.3g" % (name, float((full - summed).abs().max()))))
        return out
    logtot = lb
    moms = []
    err = 0.0
    for k in range(D):
        lo, hi = (box[k] if box else (None, None))
        I, I2, mom = integrate_1d(lambda t, k=k: g(k, t), n=n1, xmax=xmax, lo=lo, hi=hi)
        if not (I > 0):
            out.append(("factorised", "factor has no mass", "%s: factor %d integrates to %r" % (name, k, I)))
            return out
        logtot += math.log(I)
        err += abs(I - I2) / I
        moms.append(mom / I)
    tot = math.exp(logtot)
    if abs(tot - 1.0) > max(floor1 * D, 10 * err):
        out.append(("factorised", "total probability differs from one", "%s: product of the %d factor integrals = %.9g" % (name, D, tot)))
    elif expect_mean is not None and float(np.max(np.abs(np.asarray(moms) - np.asarray(expect_mean)))) > 1e-6 + 10 * err:
        out.append(("factorised", "mean() differs from the expectation", "%s: mean() = %s, first moments %s" % (name, list(map(float, expect_mean)), moms)))
    return out


# ----------------------------------------------------------------------------- nflows Distribution subjects


def normal_family_case(dname, cfg, pname, rows, seed, tier, obj=None, stage=""):
    out = []
    d = DC.DSUBJECTS[dname]
    sig = DC.dev_signature(d, cfg)
    first_pass = obj is None
    try:
        if obj is None:
            obj = DC.materialise(d, cfg, pname, seed)
    except Exception as e:
        return [("construct", "constructor raises %s" % type(e).__name__, "%s cfg=%s: %s" % (dname, cfg, str(e)[:100]))], 0
    es = d.event_shape(cfg)
    D = int(np.prod(es))
    ctx = d.contexts(cfg, rows, seed) if d.ctx_shape(cfg) is not None else None
    nrows = rows if ctx is not None else 1
    if dname == "ConditionalDiagonalNormal" and cfg.get("encoder") == "identity" and rows == 3:
        # legal but extreme context rows: with the identity encoder the second half of a context row is log_std itself. One row
        # with every std = exp(-8) and one mixing exp(5) with exp(-9): any clamp, floor or cap applied to the scale in one term
        # of the density but not in the other (or in the sampler only) shows as a mass different from 1 or a wrong lattice.
        ctx = ctx.clone()
        ctx[1, D:] = -8.0
        ctx[2, D:] = torch.tensor([5.0 if k % 2 == 0 else -9.0 for k in range(D)], dtype=ctx.dtype)
    # mean(): documented shape and value
    mean = None
    try:
        with torch.no_grad():
            mean = obj.mean(context=ctx) if ctx is not None else obj.mean()
        exp_shape = ((nrows,) if ctx is not None else ()) + tuple(es)
        if not isinstance(mean, torch.Tensor):
            out.append(("mean", "mean() does not return a tensor", "%s.mean() returned %s" % (dname, type(mean).__name__)))
            mean = None
        elif tuple(mean.shape) != exp_shape:
            out.append(("mean", "mean() has the wrong shape", "%s.mean(context=%s) has shape %s, documented %s" % (dname, None if ctx is None else "%d rows" % nrows, tuple(mean.shape), exp_shape)))
            mean = None
    except Exception as e:
        out.append(("mean", "mean() raises %s" % type(e).__name__, "%s.mean(): %s: %s" % (dname, type(e).__name__, str(e)[:100])))
    for r in range(nrows):
        c = None if ctx is None else ctx[r : r + 1]

        def lp_row(X, c=c):
            x = X.reshape(X.shape[0], *es)
            cc = None if c is None else c.expand(X.shape[0], *c.shape[1:])
            return obj.log_prob(x, context=cc)

        em = None
        if mean is not None:
            em = (mean[r] if ctx is not None else mean).reshape(-1).double().tolist()
        # place the quadrature grid: standardise with the reported mean and the curvature of log_prob there (grid placement only;
        # the integral of the re-parametrised density is the same number)
        lp_std, em_std = lp_row, em
        if em is not None:
            try:
                m0 = torch.tensor(em, dtype=torch.float64)
                h = 1e-3
                sig = []
                for k in range(D):
                    e = torch.zeros(D, dtype=torch.float64)
                    e[k] = h
                    with torch.no_grad():
                        f0, fp, fm = (float(lp_row((m0 + t)[None])[0]) for t in (0 * e, e, -e))
                    curv = (fp - 2 * f0 + fm) / h ** 2
                    sig.append(1.0 / math.sqrt(-curv) if curv < 0 else 1.0)
                sg = torch.tensor(sig, dtype=torch.float64)
                if all(1e-6 < v < 1e6 for v in sig):
                    lp_std = lambda U, m0=m0, sg=sg: lp_row(m0[None] + U * sg[None]) + float(torch.log(sg).sum())
                    em_std = [0.0] * D
            except Exception:
                pass
        try:
            out += [(cell + (":row%d" % r if r else ""), sym, msg) for cell, sym, msg in check_density("%s cfg=%s pattern=%s context row %d" % (dname, cfg, pname, r), lp_std, D, 60.0, tier, expect_mean=em_std)]
        except Exception as e:
            out.append(("log_prob", "log_prob raises %s" % type(e).__name__, "%s cfg=%s: %s: %s" % (dname, cfg, type(e).__name__, str(e)[:100])))
            break
    # sampling: lattice push-forward per coordinate
    if d.can_sample and not out:
        z = torch.tensor([norm_ppf((k + 0.5) / M) for k in range(M)], dtype=torch.float64)

        def fake_randn(*size, **kw):
            if len(size) == 1 and isinstance(size[0], (tuple, list, torch.Size)):
                size = tuple(size[0])
            n = size[0]
            reps = -(-n // M)
            col = z.repeat(reps)[:n] if n % M else z.repeat(n // M)
            # block layout: rows*M items -> item j of block i gets z_j
            return col.reshape(n, *([1] * (len(size) - 1))).expand(*size).clone()

        try:
            with mock.patch.object(torch, "randn", fake_randn), torch.no_grad():
                s = obj.sample(M, context=ctx) if ctx is not None else obj.sample(M)
            s = s.reshape(nrows, M, D).double()
            for r in range(nrows):
                c = None if ctx is None else ctx[r : r + 1]
                for k in range(D):
                    # marginal of coordinate k: others integrate out (product density) -> use the section through the row's mean
                    m0 = (mean[r] if (mean is not None and ctx is not None) else (mean if mean is not None else torch.zeros(es))).reshape(-1).double()

                    def lp1(t, k=k, c=c, m0=m0):
                        X = m0[None].repeat(t.shape[0], 1)
                        X[:, k] = t
                        cc = None if c is None else c.expand(t.shape[0], *c.shape[1:])
                        return obj.log_prob(X.reshape(t.shape[0], *es), context=cc)

                    xs = np.sort(s[r, :, k].numpy())
                    # the quadrature has to find the mass first: standardise the section with the curvature of log_prob at the
                    # mean (grid placement only: F is the same function of the sample, whatever the re-parametrisation)
                    lpq = lp1
                    try:
                        h, c0 = 1e-3, float(m0[k])
                        f0, fp, fm = (float(lp1(torch.tensor([c0 + t], dtype=torch.float64))[0]) for t in (0.0, h, -h))
                        curv = (fp - 2 * f0 + fm) / h ** 2
                        if not (curv < 0 and 1e-6 < 1.0 / math.sqrt(-curv) < 1e6):  # far narrower than h: take the curvature at the scale of the samples
                            h = max(float(xs[-1] - xs[0]) / 8, 1e-12)
                            f0, fp, fm = (float(lp1(torch.tensor([c0 + t], dtype=torch.float64))[0]) for t in (0.0, h, -h))
                            curv = (fp - 2 * f0 + fm) / h ** 2
                        if curv < 0:
                            sg = 1.0 / math.sqrt(-curv)
                            if 1e-6 < sg < 1e6 and abs(sg - 1.0) > 0.5:
                                lpq = lambda u, c0=c0, sg=sg: lp1(c0 + u * sg) + math.log(sg)
                                xs = (xs - c0) / sg
                    except Exception:
                        lpq = lp1
                    F, tot = cdf_1d(lpq, xs, xmax=60.0)
                    F = F / tot
                    target = (np.arange(M) + 0.5) / M
                    if float(np.max(np.abs(F - target))) > 2e-4:
                        out.append(("sample", "samples do not follow the density", "%s cfg=%s context row %d coordinate %d: with the %d normal mid-quantiles injected, the sorted samples sit at CDF values off by %.3g" % (dname, cfg, r, k, M, float(np.max(np.abs(F - target))))))
                        raise StopIteration
        except StopIteration:
            pass
        except NotImplementedError:
            pass
        except Exception as e:
            out.append(("sample", "sample raises %s" % type(e).__name__, "%s cfg=%s: sample(%d): %s: %s" % (dname, cfg, M, type(e).__name__, str(e)[:100])))
    # 'for every parameter value' also means: after the parameters of THIS object were updated in place (an optimiser step)
    if first_pass and not out and any(True for _ in obj.parameters()):
        from mc.params import fill as _fill

        _fill(obj, ("pat", 3 + seed % 3, 0.7))
        more, _ = normal_family_case(dname, cfg, pname, rows, seed, tier, obj=obj, stage="after an in-place parameter update")
        out += [(cell, sym + " (after an in-place parameter update)", msg + " [same object, parameters overwritten in place after the first evaluation]") for cell, sym, msg in more]
    return out, nrows


def bernoulli_case(cfg, pname, rows, seed):
    out = []
    d = DC.DSUBJECTS["ConditionalIndependentBernoulli"]
    obj = DC.materialise(d, cfg, pname, seed)
    es = d.event_shape(cfg)
    n = int(np.prod(es))
    ctx = d.contexts(cfg, rows, seed)
    allx = torch.tensor(list(itertools.product((0.0, 1.0), repeat=n)), dtype=torch.float64).reshape(-1, *es)
    with torch.no_grad():
        mean = obj.mean(context=ctx)
    if tuple(mean.shape) != (rows,) + tuple(es):
        out.append(("mean", "mean() has the wrong shape", "mean shape %s" % (tuple(mean.shape),)))
        return out, rows
    for r in range(rows):
        c = ctx[r : r + 1].expand(allx.shape[0], *ctx.shape[1:])
        with torch.no_grad():
            p = torch.exp(obj.log_prob(allx, context=c))
        tot = float(p.sum())
        if abs(tot - 1) > 1e-12:
            out.append(("sum", "total probability differs from one", "Bernoulli cfg=%s context row %d: sum over {0,1}^%d = %.15g" % (cfg, r, n, tot)))
        ex = (p[:, None] * allx.reshape(allx.shape[0], -1)).sum(0)
        if float((ex - mean[r].reshape(-1)).abs().max()) > 1e-12:
            out.append(("mean", "mean() differs from the expectation", "Bernoulli cfg=%s context row %d: mean() %s, expectation %s" % (cfg, r, mean[r].reshape(-1).tolist(), ex.tolist())))
    # confident logits (contexts x60: probabilities within 1e-16 of 0 or 1): the pmf must stay a pmf -- finite log-probabilities, total one
    for dt, tol in ((torch.float64, 1e-12), (torch.float32, 1e-5)):
        try:
            o = obj if dt == torch.float64 else DC.materialise(d, cfg, pname, seed, dtype=torch.float32)
            big = (ctx * 60.0).to(dt)
            for r in range(rows):
                c = big[r : r + 1].expand(allx.shape[0], *big.shape[1:])
                with torch.no_grad():
                    lp = o.log_prob(allx.to(dt), context=c).double()
                if not bool(torch.isfinite(lp).all()):
                    out.append(("sum:confident", "non-finite log_prob", "Bernoulli cfg=%s %s context row %d x 60: log_prob over {0,1}^%d contains %s" % (cfg, str(dt)[6:], r, n, sorted(set(str(float(v)) for v in lp[~torch.isfinite(lp)]))[:3])))
                    break
                tot = float(torch.exp(lp).sum())
                if abs(tot - 1) > tol:
                    out.append(("sum:confident", "total probability differs from one", "Bernoulli cfg=%s %s context row %d x 60: sum over {0,1}^%d = %.15g" % (cfg, str(dt)[6:], r, n, tot)))
                    break
        except Exception as e:
            out.append(("sum:confident", "log_prob raises %s" % type(e).__name__, "Bernoulli cfg=%s with contexts x 60: %s" % (cfg, str(e)[:100])))
    # sampling: uniform mid-quantile lattice -> frequency of ones within 1/M of p
    u = (torch.arange(M, dtype=torch.float64) + 0.5) / M

    def fake_rand(*size, **kw):
        if len(size) == 1 and isinstance(size[0], (tuple, list, torch.Size)):
            size = tuple(size[0])
        nn_ = size[0]
        col = u.repeat(nn_ // M)
        return col.reshape(nn_, *([1] * (len(size) - 1))).expand(*size).clone()

    try:
        with mock.patch.object(torch, "rand", fake_rand), torch.no_grad():
            s = obj.sample(M, context=ctx).reshape(rows, M, -1).double()
        freq = s.mean(1)
        if float((freq - mean.reshape(rows, -1)).abs().max()) > 1.0 / M + 1e-12:
            out.append(("sample", "samples do not follow the density", "Bernoulli cfg=%s: with the %d uniform mid-quantiles injected the frequency of ones %s differs from p = %s by more than 1/%d" % (cfg, M, freq.tolist(), mean.reshape(rows, -1).tolist(), M)))
        if not bool(((s == 0) | (s == 1)).all()):
            out.append(("sample", "non-binary samples", "samples outside {0,1}"))
    except Exception as e:
        out.append(("sample", "sample raises %s" % type(e).__name__, "%s" % str(e)[:100]))
    return out, rows


def mog_case(cfg, pname, rows, seed, tier):
    out = []
    d = DC.DSUBJECTS["MADEMoG"]
    obj = DC.materialise(d, cfg, pname, seed)
    D = cfg["features"]
    ctx = d.contexts(cfg, rows, seed) if cfg["context"] else None
    nrows = rows if ctx is not None else 1
    for r in range(nrows):
        c = None if ctx is None else ctx[r : r + 1]

        def lp_row(X, c=c):
            cc = None if c is None else c.expand(X.shape[0], -1)
            return obj.log_prob(X, context=cc)

        out += check_density("MADEMoG cfg=%s pattern=%s context row %d" % (cfg, pname, r), lp_row, D, 80.0, tier, floor1=1e-6, floor2=2e-4)
    # sampling, decided where it is an exact push-forward: one mixture component, first feature (its conditional is the marginal)
    if cfg["components"] == 1 and not out:
        z = torch.tensor([norm_ppf((k + 0.5) / M) for k in range(M)], dtype=torch.float32)
        calls = {"n": 0}

        def fake_randn(*size, **kw):
            n = size[0] if not isinstance(size[0], (tuple, list, torch.Size)) else size[0][0]
            calls["n"] += 1
            return z.repeat(n // M) if n % M == 0 else torch.zeros(n)

        try:
            o32 = DC.materialise(d, cfg, pname, seed, dtype=torch.float32)
            c32 = None if ctx is None else ctx.float()
            with mock.patch.object(torch, "randn", fake_randn), torch.no_grad():
                s = o32.sample(M, context=c32)
            s = s.reshape(nrows, M, D).double()
            for r in range(nrows):
                c = None if ctx is None else ctx[r : r + 1]
                xs = np.sort(s[r, :, 0].numpy())

                def lp1(t, c=c):
                    # marginal of the first feature: integrate the later features out by using D=1 models only, or the first conditional
                    X = torch.zeros(t.shape[0], D, dtype=torch.float64)
                    X[:, 0] = t
                    cc = None if c is None else c.expand(t.shape[0], -1)
                    if D == 1:
                        return obj.log_prob(X, context=cc)
                    return None

                if D != 1:
                    break
                F, tot = cdf_1d(lp1, xs, xmax=80.0)
                target = (np.arange(M) + 0.5) / M
                err = float(np.max(np.abs(F / tot - target)))
                if err > 1e-3:
                    out.append(("sample", "samples do not follow the density", "MADEMoG cfg=%s context row %d: with the %d normal mid-quantiles injected, the sorted samples sit at CDF values off by %.3g" % (cfg, r, M, err)))
                    break
        except Exception as e:
            out.append(("sample", "sample raises %s" % type(e).__name__, "MADEMoG cfg=%s: sample(%d): %s: %s" % (cfg, M, type(e).__name__, str(e)[:100])))
    if not out:
        out += mog_sampler_paths(d, cfg, pname, seed, ctx, nrows, obj)
    return out, nrows


ZL = (-0.8, 0.6)  # the two noise values injected per feature (asymmetric on purpose)


def mog_sampler_paths(d, cfg, pname, seed, ctx, nrows, obj64):
    """Sampler vs density for any number of components and features, exactly: ONE call sample(N) with N = (K*2)^D rows in which
    the seams force every path of component choices (torch.multinomial answers) x noise values (torch.randn answers). Rows that
    share a prefix share x_<i, so from them the sampler's own conditional mixture of feature i -- weights (the probabilities the
    library handed to multinomial), means and scales (two noise values per component) -- is read off; the product of these
    conditionals at each of the N drawn points must equal exp(log_prob) there."""
    out = []
    D, K = cfg["features"], cfg["components"]
    Z = len(ZL)
    N = (K * Z) ** D
    # row n <-> digits (k_1, z_1, ..., k_D, z_D)
    digs = np.zeros((N, D, 2), dtype=np.int64)
    for n in range(N):
        q = n
        for i in range(D):
            digs[n, i, 0] = q % K
            q //= K
            digs[n, i, 1] = q % Z
            q //= Z
    o32 = DC.materialise(d, cfg, pname, seed, dtype=torch.float32)
    for r in range(nrows):
        c32 = None if ctx is None else ctx[r : r + 1].float()
        rec = {"probs": [], "feat_m": 0, "feat_r": 0, "bad": None}

        def fake_multinomial(inp, num_samples, replacement=False, **kw):
            i = rec["feat_m"]
            rec["feat_m"] += 1
            if inp.shape != (N, K) or num_samples != 1 or i >= D:
                rec["bad"] = "multinomial called with input %s, num_samples %s (call %d)" % (tuple(inp.shape), num_samples, i)
                return torch.zeros(inp.shape[0], num_samples, dtype=torch.long)
            rec["probs"].append(inp.detach().double().clone())
            return torch.tensor(digs[:, i, 0]).reshape(N, 1)

        def fake_randn(*size, **kw):
            i = rec["feat_r"]
            rec["feat_r"] += 1
            n = size[0] if not isinstance(size[0], (tuple, list, torch.Size)) else size[0][0]
            if n != N or i >= D:
                rec["bad"] = "randn called with size %s (call %d)" % (size, i)
                return torch.zeros(*size)
            return torch.tensor([ZL[j] for j in digs[:, i, 1]], dtype=torch.float32)

        try:
            with mock.patch.object(torch, "multinomial", fake_multinomial), mock.patch.object(torch, "randn", fake_randn), torch.no_grad():
                smp = o32.sample(N, context=c32)
        except Exception as e:
            out.append(("sample", "sample raises %s" % type(e).__name__, "MADEMoG cfg=%s: sample(%d) with forced component / noise paths: %s: %s" % (cfg, N, type(e).__name__, str(e)[:100])))
            break
        if rec["bad"] or rec["feat_m"] != D or rec["feat_r"] != D:
            # the sampler does not have the documented one-categorical-one-normal-draw-per-feature structure: nothing is decided here
            out.append(("sample:undecided", "sampler structure not recognised", "MADEMoG cfg=%s: %s; multinomial calls %d, randn calls %d for %d features" % (cfg, rec["bad"], rec["feat_m"], rec["feat_r"], D)))
            break
        X = smp.reshape(N, D).double()
        logp_s = torch.zeros(N, dtype=torch.float64)
        ok = True
        for i in range(D):
            pref = [tuple(digs[n, :i].reshape(-1)) for n in range(N)]
            groups = {}
            for n in range(N):
                groups.setdefault(pref[n], []).append(n)
            for g, rows_ in groups.items():
                pi = rec["probs"][i][rows_[0]]
                pi = pi / pi.sum()
                mu, sg = [], []
                for k in range(K):
                    xa = [float(X[n, i]) for n in rows_ if digs[n, i, 0] == k and digs[n, i, 1] == 0]
                    xb = [float(X[n, i]) for n in rows_ if digs[n, i, 0] == k and digs[n, i, 1] == 1]
                    if max(xa) - min(xa) > 1e-5 * (1 + abs(xa[0])) or max(xb) - min(xb) > 1e-5 * (1 + abs(xb[0])):
                        out.append(("sample", "a feature's draw depends on later choices", "MADEMoG cfg=%s context row %d: feature %d differs between rows that share all choices up to it" % (cfg, r, i)))
                        ok = False
                        break
                    sk = (xb[0] - xa[0]) / (ZL[1] - ZL[0])
                    mu.append(xa[0] - sk * ZL[0])
                    sg.append(sk)
                if not ok:
                    break
                if min(sg) <= 0:
                    out.append(("sample", "non-positive component scale in the sampler", "MADEMoG cfg=%s context row %d: feature %d scales %s" % (cfg, r, i, sg)))
                    ok = False
                    break
                mu_t, sg_t = torch.tensor(mu, dtype=torch.float64), torch.tensor(sg, dtype=torch.float64)
                xi = X[rows_, i].reshape(-1, 1)
                comp = torch.log(pi).reshape(1, K) - 0.5 * ((xi - mu_t) / sg_t) ** 2 - torch.log(sg_t) - 0.5 * np.log(2 * np.pi)
                logp_s[rows_] += torch.logsumexp(comp, dim=1)
            if not ok:
                break
        if not ok:
            break
        with torch.no_grad():
            cc = None if ctx is None else ctx[r : r + 1].expand(N, -1)
            lp = obj64.log_prob(X, context=cc)
        err = float((lp - logp_s).abs().max())
        if not err <= 5e-3:
            n = int((lp - logp_s).abs().argmax())
            out.append(("sample", "samples do not follow the density", "MADEMoG cfg=%s context row %d: over all %d forced (component, noise) paths the sampler's own conditional mixtures give log-density %.6g at the drawn point %s but log_prob says %.6g (largest gap %.3g)"
                        % (cfg, r, N, float(logp_s[n]), [round(float(v), 5) for v in X[n]], float(lp[n]), err)))
            break
    return out


# ----------------------------------------------------------------------------- torch.distributions-style priors and KDE


def prior_cases(tier):
    out = []
    for dims in (1, 2, 3):
        for box in ([-1.0, 2.0], [0.0, 1.0], [2.0, 2.5]):
            out.append({"kind": "BoxUniform", "dims": dims, "box": box})
    for shape in ([2, 2], [1, 3], [2, 1, 2]):
        for box in ([-1.0, 2.0], [2.0, 2.5]):
            out.append({"kind": "BoxUniformND", "shape": shape, "box": box})
    for box in ([0.0, 10.0], [1.0, 2.0]):
        out.append({"kind": "MG1Uniform", "box": box})
    out.append({"kind": "LotkaVolterraOscillating"})
    for N in (1, 2, 5):
        for Dk in (1, 2):
            out.append({"kind": "kde", "N": N, "D": Dk})
    return out


def prior_case(case, tier):
    out = []
    k = case["kind"]
    if k == "BoxUniform":
        dims, (lo, hi) = case["dims"], case["box"]
        p = U.BoxUniform(low=lo * torch.ones(dims, dtype=torch.float64), high=hi * torch.ones(dims, dtype=torch.float64))
        inside = torch.full((1, dims), 0.5 * (lo + hi), dtype=torch.float64)
        lp = p.log_prob(inside)
        if tuple(lp.shape) != (1,):
            out.append(("log_prob", "not one value per point", "BoxUniform(%d dims).log_prob has shape %s" % (dims, tuple(lp.shape))))
            return out
        if abs(float(lp[0]) + dims * math.log(hi - lo)) > 1e-12:
            out.append(("density", "total probability differs from one", "BoxUniform %s^%d: density %.9g, 1/volume %.9g" % (case["box"], dims, math.exp(float(lp[0])), (hi - lo) ** -dims)))
        # outside the box: -inf (zero density), not an exception (documented: 'whether the evaluated point is in the box or outside')
        try:
            lo_out = p.log_prob(torch.full((1, dims), hi + 1.0, dtype=torch.float64))
            if float(lo_out[0]) != -math.inf:
                out.append(("outside", "positive density outside the box", "log_prob outside = %r" % float(lo_out[0])))
        except ValueError:
            pass  # torch's argument validation rejects points outside the support: no density is reported, which the property allows
        s = p.sample((8,))
        if tuple(s.shape) != (8, dims) or not bool(((s >= lo) & (s <= hi)).all()):
            out.append(("sample", "samples outside the support", "BoxUniform sample shape %s / range" % (tuple(s.shape),)))
        return out
    if k == "BoxUniformND":
        # matrix- / image-shaped box: all axes reinterpreted as ONE event (reinterpreted_batch_ndims = number of axes)
        shape, (lo, hi) = case["shape"], case["box"]
        nd, vol = len(shape), int(np.prod(shape))
        p = U.BoxUniform(low=lo * torch.ones(*shape, dtype=torch.float64), high=hi * torch.ones(*shape, dtype=torch.float64), reinterpreted_batch_ndims=nd)
        pts = torch.full((3, *shape), 0.5 * (lo + hi), dtype=torch.float64) + 0.1 * (hi - lo) * pat_tensor((3, *shape), 2, 1.0)
        lp = p.log_prob(pts)
        if tuple(lp.shape) != (3,):
            out.append(("log_prob", "not one value per point", "BoxUniform(shape %s, reinterpreted_batch_ndims=%d).log_prob of 3 points has shape %s" % (shape, nd, tuple(lp.shape))))
            return out
        if float((lp + vol * math.log(hi - lo)).abs().max()) > 1e-12:
            out.append(("density", "total probability differs from one", "BoxUniform %s^%s: density %.9g, 1/volume %.9g" % (case["box"], shape, math.exp(float(lp[0])), (hi - lo) ** -vol)))
        if tuple(p.event_shape) != tuple(shape):
            out.append(("log_prob", "wrong event shape", "BoxUniform(shape %s, reinterpreted_batch_ndims=%d).event_shape = %s" % (shape, nd, tuple(p.event_shape))))
        sm = p.sample((4,))
        if tuple(sm.shape) != (4, *shape) or not bool(((sm >= lo) & (sm <= hi)).all()):
            out.append(("sample", "samples outside the support", "BoxUniform(shape %s) sample shape %s / range" % (shape, tuple(sm.shape))))
        return out
    if k == "MG1Uniform":
        lo, hi = case["box"]
        p = U.MG1Uniform(low=lo * torch.ones(3), high=hi * torch.ones(3), validate_args=False)
        # midpoint quadrature over the bounding box of the sheared support (discontinuous integrand: loose tolerance)
        n = 48 if tier == "quick" else 96
        w = hi - lo
        g0 = lo + w * (np.arange(n) + 0.5) / n
        g1 = 2 * lo + (2 * w) * (np.arange(2 * n) + 0.5) / (2 * n)  # the sheared parameter u0 + u1 ranges over [2 lo, 2 hi]
        G = np.stack(np.meshgrid(g0, g1, g0, indexing="ij"), -1).reshape(-1, 3)
        with torch.no_grad():
            lp = p.log_prob(torch.tensor(G, dtype=torch.float32))
        if lp.dim() == 2:
            lp = lp.sum(-1)
        dens = torch.exp(lp.double())
        dens[~torch.isfinite(dens)] = 0.0
        I = float(dens.sum()) * (w / n) ** 3
        if abs(I - 1) > 5e-2:
            out.append(("quadrature", "total probability differs from one", "MG1Uniform %s: integral over parameter space = %.4g" % (case["box"], I)))
        s = p.sample((16,))
        lps = p.log_prob(s)
        if not bool(torch.isfinite(lps).all()):
            out.append(("sample", "samples outside the support", "MG1Uniform: log_prob of own samples not finite"))
        return out
    if k == "LotkaVolterraOscillating":
        try:
            p = U.LotkaVolterraOscillating()
        except Exception as e:
            return [("construct", "constructor raises %s" % type(e).__name__, str(e)[:100])]
        box = [(-5.0, 2.0)] * 4

        def lp_row(X):
            return p.log_prob(X.float()).double()

        out += check_density("LotkaVolterraOscillating", lp_row, 4, 10.0, tier, box=box, floor1=1e-4, add_tol=1e-4)  # the object computes in float32
        try:
            torch.manual_seed(0)
            s = p.sample((64,))
            if tuple(s.shape) != (64, 4) or not bool(((s >= -5) & (s <= 2)).all()):
                out.append(("sample", "samples outside the support", "LotkaVolterraOscillating.sample((64,)) shape %s" % (tuple(s.shape),)))
        except Exception as e:
            out.append(("sample", "sample raises %s" % type(e).__name__, "LotkaVolterraOscillating.sample((64,)) raised %s: %s" % (type(e).__name__, str(e)[:100])))
        return out
    if k == "kde":
        N, Dk = case["N"], case["D"]
        samples = pat_tensor((N, Dk), 2, 1.2)

        def lp_row(X):
            return torchutils.gaussian_kde_log_eval(samples, X[:, None, :])

        try:
            out += check_density("gaussian_kde_log_eval(N=%d, D=%d)" % (N, Dk), lp_row, Dk, 30.0, tier)
        except Exception as e:
            out.append(("float64", "raises %s" % type(e).__name__, "gaussian_kde_log_eval(samples float64 [%d,%d], query float64) raised %s: %s" % (N, Dk, type(e).__name__, str(e)[:100])))
        return out
    raise ValueError(k)


# ----------------------------------------------------------------------------- units


def all_cases(tier, seed):
    k = 1 if tier == "quick" else 2
    cs = []
    for dname in ("StandardNormal", "DiagonalNormal", "ConditionalDiagonalNormal"):
        d = DC.DSUBJECTS[dname]
        for cfg in DC.enum_configs(d, k):
            for pname in d.patterns:
                for rows in ((1, 2, 3) if d.ctx_shape(cfg) is not None else (1,)):
                    cs.append({"kind": "normal", "dist": dname, "cfg": cfg, "pattern": pname, "rows": rows})
    d = DC.DSUBJECTS["ConditionalIndependentBernoulli"]
    for cfg in DC.enum_configs(d, k):
        for pname in d.patterns:
            for rows in (1, 2, 3):
                cs.append({"kind": "bernoulli", "cfg": cfg, "pattern": pname, "rows": rows})
    d = DC.DSUBJECTS["MADEMoG"]
    for cfg in DC.enum_configs(d, k + 1):  # one more deviation: the sampler is decided for (features=1, components=1) only
        if cfg["features"] > 2:
            continue
        for pname in d.patterns:
            for rows in ((1, 2) if cfg["context"] else (1,)):
                cs.append({"kind": "mog", "cfg": cfg, "pattern": pname, "rows": rows})
    for c in prior_cases(tier):
        cs.append({"kind": "prior", "case": c})
    return cs


def salp_rows(dname, cfg, pname, rows, seed):
    """sample_and_log_prob(2, context of `rows` rows): the value returned with draw (i, j) must be log_prob of that draw under
    context row i (float32 object: the library's samplers create default-dtype noise)"""
    d = DC.DSUBJECTS[dname]
    if d.ctx_shape(cfg) is None or rows < 2:
        return []
    out = []
    try:
        o32 = DC.materialise(d, cfg, pname, seed, dtype=torch.float32)
        c32 = d.contexts(cfg, rows, seed).float()
        with torch.random.fork_rng(), torch.no_grad():
            torch.manual_seed(11 + seed)
            smp, lp = o32.sample_and_log_prob(2, context=c32)
            es = tuple(d.event_shape(cfg))
            if tuple(smp.shape) != (rows, 2) + es or tuple(lp.shape) != (rows, 2):
                return [("sample_and_log_prob", "wrong shapes", "%s cfg=%s: sample_and_log_prob(2, %d context rows) returned shapes %s / %s" % (dname, cfg, rows, tuple(smp.shape), tuple(lp.shape)))]
            for i in range(rows):
                ref = o32.log_prob(smp[i], context=c32[i : i + 1].expand(2, *c32.shape[1:]))
                err = float((ref - lp[i]).abs().max())
                if not err <= 1e-4 * (1 + float(ref.abs().max())):
                    out.append(("sample_and_log_prob", "returned log_prob is not log_prob(sample | its context row)", "%s cfg=%s pattern=%s: draws of context row %d of %d: returned %s, log_prob of the draws under that row %s" % (dname, cfg, pname, i, rows, lp[i].tolist(), ref.tolist())))
                    break
    except Exception as e:
        out.append(("sample_and_log_prob", "raises %s" % type(e).__name__, "%s cfg=%s: sample_and_log_prob(2, %d rows): %s: %s" % (dname, cfg, rows, type(e).__name__, str(e)[:100])))
    return out


def run_case(c, seed, tier):
    if c["kind"] == "normal":
        r = normal_family_case(c["dist"], c["cfg"], c["pattern"], c["rows"], seed, tier)
        vs, n = r if isinstance(r, tuple) else (r, 1)
        if not vs:
            vs = vs + salp_rows(c["dist"], c["cfg"], c["pattern"], c["rows"], seed)
        return c["dist"], DC.dev_signature(DC.DSUBJECTS[c["dist"]], c["cfg"]), vs, n
    if c["kind"] == "bernoulli":
        vs, n = bernoulli_case(c["cfg"], c["pattern"], c["rows"], seed)
        if not vs:
            vs = vs + salp_rows("ConditionalIndependentBernoulli", c["cfg"], c["pattern"], c["rows"], seed)
        return "ConditionalIndependentBernoulli", DC.dev_signature(DC.DSUBJECTS["ConditionalIndependentBernoulli"], c["cfg"]), vs, n
    if c["kind"] == "mog":
        vs, n = mog_case(c["cfg"], c["pattern"], c["rows"], seed, tier)
        return "MADEMoG", DC.dev_signature(DC.DSUBJECTS["MADEMoG"], c["cfg"]), vs, n
    vs = prior_case(c["case"], tier)
    return c["case"]["kind"], ",".join("%s=%s" % (k, v) for k, v in c["case"].items() if k != "kind") or "default", vs, 1


def units(tier, seed):
    cs = all_cases(tier, seed)
    n = 32
    return [(cs[i::n], seed, tier) for i in range(n)]


def run_unit(unit):
    cs, seed, tier = unit
    res = new_result()
    for c in cs:
        name, sig, vs, n = run_case(c, seed, tier)
        res["evaluations"] += n
        res["states"] += n
        res["transitions"] += 3 * n
        res["traces"] += n
        if c.get("pattern", "init") != "init" or c.get("rows", 1) >= 2 or c["kind"] == "prior":
            res["nontrivial"] += n
        bump(res["outcomes"], "%s:%s" % (name, "violation" if vs else "ok"))
        for cell, sym, msg in vs:
            res["violations"].append({"key": "%s|%s|%s|%s" % (name, sig, cell.split(":row")[0], sym), "case": {"c": c, "seed": seed, "tier": tier}, "msg": msg})
        if not res["samples"]:
            res["samples"].append(c)
    return res


def replay(case):
    name, sig, vs, n = run_case(case["c"], case["seed"], case["tier"])
    return [{"key": "%s|%s|%s|%s" % (name, sig, cell.split(":row")[0], sym), "case": case, "msg": msg} for cell, sym, msg in vs]
