#!/venv/bin/python
"""Regenerate /verif/seeded/INDEX.md from the meta.json files."""
import json, os, glob
rows = []
for d in sorted(glob.glob("/verif/seeded/*/")):
    m = json.load(open(os.path.join(d, "meta.json")))
    sid = os.path.basename(d.rstrip("/"))
    v = m.get("verified_by_me", {})
    rows.append((sid, m.get("property", ""), m.get("title", m.get("what_it_breaks", ""))[:150].replace("|", "/"), ", ".join(m.get("detected_by", [])) or "NOT DETECTED",
                 "yes" if v.get("tests_pass_with_change") and v.get("demo_fails_with_change") and v.get("demo_passes_without") else "?", m.get("note", "").replace("|", "/")))
with open("/verif/seeded/INDEX.md", "w") as f:
    f.write("# Seeded property-breaking changes\n\nEach directory holds `patch.diff` (apply to /repo with `git apply`), `demo.py` (fails with the change, passes without) and `meta.json`.\n"
            "Re-check with `tools/mutant.py verify seeded/<id>` and `tools/mutant.py check seeded/<id> <checks>` (scratch worktree, /repo untouched).\n\n")
    f.write("| id | property | change | detected by | verified | note |\n|---|---|---|---|---|---|\n")
    for r in rows:
        f.write("| %s | %s | %s | %s | %s | %s |\n" % r)
    f.write("\n%d changes, %d detected.\n" % (len(rows), sum(1 for r in rows if r[3] != "NOT DETECTED")))
print(len(rows), "entries")
