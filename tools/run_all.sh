#!/bin/bash
# run_all.sh [tier] : run every registered check once, print one line each
tier=${1:-quick}
cd /verif
for pid in $(/venv/bin/python -c "import json; print(' '.join(c['property_id'] for c in json.load(open('MANIFEST.json'))['checks']))"); do
  out=$(/venv/bin/python -m mc.check $pid --tier $tier 2>&1); rc=$?
  echo "$pid rc=$rc $(echo "$out" | grep -E "^$pid tier" | cut -c1-220)"
  echo "$out" | grep -E "^VIOLATION |HARNESS-ERROR" | head -3
done
python3-vt tools/validate.py | grep -v " ok$"
