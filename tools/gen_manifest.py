#!/venv/bin/python
"""Regenerates /verif/MANIFEST.json from the table below (run after adding a check)."""
import json
import os

V = os.path.dirname(os.path.dirname(os.path.abspath(__file__)))

CHECKS = {
    "C01": dict(
        technique="bounded-exhaustive product exploration (subject x config<=k deviations x parameter pattern x deviation-bounded input rows) with an independent float64 finite-difference Jacobian oracle",
        text="Every Transform class (plus the bare spline functions with non-default boxes and wrapper programs) is built in every configuration with <=1 (thorough <=2) "
        "deviations from its default constructor arguments, under 3-4 deterministic parameter patterns (fresh, all-zero, two quasi-random), and evaluated on rows that put "
        "each coordinate in turn on every cell of its alphabet (knots, ulp neighbours, end-points, tail junction, far tails). The returned log-abs-det must equal log|det J| of "
        "the real forward obtained by 4th-order finite differences with a step-size ladder; at kinks it must lie between the one-sided values.",
        note="FD certifies 1e-6*D; rows where step sizes disagree are skipped and counted; UMNN judged with its declared quadrature tolerance; eval mode, float64",
        ref="DESIGN.md 4/C01",
    ),
    "C02": dict(
        technique="bounded-exhaustive product exploration (subject x config<=k deviations x parameter pattern x input-side and output-side deviation-bounded rows), both composition orders executed on the real code",
        text="For every invertible transform, configuration (<=1 / <=2 deviations), parameter pattern (incl. exactly-zero and strongly non-uniform) and every row that puts one "
        "coordinate on a cell of the input alphabet (x side) or of the output alphabet (y side: output knots, end-points of [bottom,top], tails), inverse(forward(x)) and "
        "forward(inverse(y)) are executed; all numbers must be finite, the round trip must close within (1e-9 + declared constant) x measured conditioning (bit-exact for "
        "permutations/squeeze), and the inverse log-det must be minus the forward log-det at inverse(y).",
        note="conditioning from a finite-difference Jacobian at the point; declared constants: cubic quadratic_threshold/eps, UMNN bisection, Sigmoid clamp; at kinks either one-sided log-det is accepted",
        ref="DESIGN.md 4/C02",
    ),
    "C03": dict(
        technique="exhaustive enumeration of all well-typed programs (compositions) of library transforms up to a size bound over a typed leaf alphabet; oracle = deterministic two-resolution quadrature of exp(log_prob) over the program's data space + reference decomposition log_prob = base density + log-det",
        text="Leaves carry data-space types (R, (0,1), (0,inf), (-1,1)); every sequence of <=2 (thorough <=3) of 44 one-dimensional leaves (24 transforms and their InverseTransform wrappers) that "
        "type-checks and ends in R, and every sequence of <=2 of 27 two-dimensional leaves over R^2 (all coupling classes with both masks, autoregressive classes, linear family, permutations, lifted "
        "elementwise transforms), is wrapped into a Flow with a library base (StandardNormal; single leaves also DiagonalNormal / ConditionalDiagonalNormal with 2 context rows / embedding net) and "
        "exp(log_prob) is integrated over its data space by a midpoint rule in a smooth re-parametrisation at n and n/2 points: the result must be 1. Independently log_prob must equal the reference "
        "base log-density at the transformed point plus the returned log-det.",
        note="data dimension 1 and 2 (as the property scopes it); UMNN excluded (not onto R for all weights); clamp-bounded leaves only last, LogTanh only first; tolerance floors 4e-4 / 2e-3 (1-D) and 3e-3 / 2e-2 (2-D) for smooth / discontinuous densities",
        ref="DESIGN.md 4/C03",
    ),
    "C04": dict(
        technique="bounded-exhaustive enumeration of flow programs x bases x context rows x num_samples with torch.randn owned by a tagging / quantile-lattice seam; exact pairing and push-forward oracles",
        text="For every flow configuration (four transform programs x StandardNormal / conditional / diagonal base x raw / embedded / no context; MaskedAutoregressiveFlow; SimpleRealNVP; <=2 (<=3) "
        "deviations), 1..3 context rows and num_samples in {1,2,3,5}: the log-probs returned by sample_and_log_prob must equal log_prob(sample[i,j], context[i]); transform_to_noise must recover "
        "exactly the injected noise item i*n+j (pins block i to context row i for sample and sample_and_log_prob); the sampler must request exactly rows*n noise items; and for 1-feature flows the samples "
        "generated from the normal mid-quantile lattice must sit at the matching quantiles of the quadrature CDF of exp(log_prob), monotonically.",
        note="float64 noise supplied by the seam; the convergence-in-distribution clause is decided in its deterministic push-forward form for 1-feature flows, and through C03 + pairing otherwise",
        ref="DESIGN.md 4/C04",
    ),
    "C05": dict(
        technique="bounded-exhaustive enumeration of distribution classes x event shapes x encoders x patterns x context rows; oracles: exact summation, deterministic sinh-grid quadrature with self-estimated error, and an exact push-forward identity on an injected quantile lattice (RNG seam)",
        text="Every density-returning object is integrated deterministically: exact sum over {0,1}^n for the Bernoulli, 1-D / 2-D midpoint quadrature (n and n/2 points) for the normal family, the MADE "
        "mixture (1-2 features, 1-3 components), BoxUniform, MG1Uniform and the kernel-density evaluator, and additivity + per-factor quadrature beyond two coordinates (incl. LotkaVolterraOscillating); "
        "mean() must have the documented shape and equal the quadrature first moment; sample() is run with the mid-quantiles of N(0,1) / U(0,1) injected through a seam and every sorted sample must sit "
        "at its (k+1/2)/m quantile of the density (Bernoulli: frequency within 1/m of p). The MADE mixture's sampler is decided by forcing every path of component choices x two noise "
        "values per feature through the torch.multinomial / torch.randn seams in one sample() call and comparing the sampler's own conditional mixtures with exp(log_prob) at all (2K)^D draws; "
        "sample_and_log_prob of the conditional distributions is compared with log_prob row by row.",
        note="statistical clause replaced by its push-forward form; discontinuous uniform densities with a 5e-2 quadrature tolerance",
        ref="DESIGN.md 4/C05",
    ),
    "C06": dict(
        technique="exhaustive enumeration of architectures and of every random-mask draw (choice-tree DFS with stateless replay of the constructor under a torch.randint seam); structural reachability model over the registered masks + conformance of the model to the real forward (witness-weight Jacobian pattern, invariance under replacement)",
        text="Both MADE implementations (and MixtureOfGaussiansMADE) are built for every (features 1..4/5, hidden 1..6, blocks 0..2, residual/feed-forward, context, output multiplier, "
        "batch-norm) combination and, for random masks, for every answer torch.randint can give (sorted degree vectors per layer). The dependency relation computed from the mask buffers "
        "must be strictly autoregressive - which decides the property for all weight values - and must coincide with the non-zero pattern of the autograd Jacobian of the real forward "
        "under witness weights; for two weight patterns in eval and train mode (dropout, batch-norm) block f must not change when inputs >= f are replaced.",
        note="sorted random degree vectors (exchangeable hidden units); cap per architecture reported in the evidence; feature-major output layout",
        ref="DESIGN.md 4/C06",
    ),
    "C07": dict(
        technique="bounded-exhaustive enumeration of every non-trivial mask (2..5 features) x encoding x coupling class x input kind x direction on the real layers, with run-time monitors (bitwise comparison, forward pre-hook on the conditioner)",
        text="For each of the 7 coupling classes and every non-trivial mask of 2..5 features (all encodings and <=1 deviation among image input / context / unconditional transform / box spline "
        "for 3 features; thorough: the full product), forward and inverse are run on the real layer: identity positions must be returned bit for bit, a forward pre-hook proves the "
        "conditioner received exactly the identity features and the context (so its output cannot depend on anything else, for all weights), changing one transformed coordinate must not "
        "move any other output, and each transformed output must be strictly increasing in its own input over a 7-point alphabet inside and outside the tails.",
        note="index sets derived from the mask values by the check itself; non-interference among transformed outputs to 1e-12 (vector-kernel rounding), identity outputs bitwise",
        ref="DESIGN.md 4/C07",
    ),
    "C08": dict(
        technique="exhaustive enumeration of all wrapper programs (ASTs) up to a node bound and of all multiscale shapes/split dims/stage counts; oracle = hand-chained interpreter over the leaves and a nested-list routing model",
        text="Every Composite/Inverse nesting with <=6 (thorough <=7) nodes over five pairwise non-commuting leaves is built from the library wrappers and run in both directions; outputs "
        "must be bit-identical to an interpreter that only calls the leaves' own forward/inverse in the documented order, and log-dets must be the sum over the parts. "
        "MultiscaleCompositeTransform is built for every input shape with <=3 dims of sizes 2..5, every split dimension and 1..3 stages (stage k multiplies by the k-th prime and adds 10^(k+1), so "
        "each output encodes the stages it passed) and compared with a pure-Python model of the documented routing; inverse(forward(x)) must equal x exactly; invalid combinations and the documented misuse errors are checked.",
        note="leaf alphabet of 5 transforms; integer tags make the multiscale comparison exact",
        ref="DESIGN.md 4/C08",
    ),
    "C09": dict(
        technique="bounded-exhaustive product exploration of the real spline functions on sorted grids concentrated on knots, ulp neighbours, end-points and the tail junction; invariant oracles (monotone, continuous, pinned end-points, exact containment, identity in tails)",
        text="All four spline families x bin counts 1..5 x three boxes and four tail bounds (1 .. 1000) x parameter patterns (all-zero up to strongly non-uniform) x float64/float32 x both "
        "directions are evaluated on a sorted grid holding every knot with its +-1..3 ulp neighbours, 8 (thorough 24) points per bin, the end-points and the tail junction with "
        "neighbours and points outside; outputs must be non-decreasing (strictly for separated points), continuous across knots and at the junction, map end-points to end-points, "
        "stay inside [bottom,top] exactly, and be the bitwise identity with zero log-det outside the tail bound.",
        note="64 ulp(scale)(1+slope) rounding allowance (x16 in the inverse direction; declared eps for the cubic inverse); float32 only for patterns up to scale 3",
        ref="DESIGN.md 4/C09",
    ),
    "C10": dict(
        technique="stateless exhaustive exploration of all operation histories up to a depth on the real objects (replay from the empty history) + explicit-state BFS with exact state hashing to the fixpoint; oracle = uncached twin rebuilt from state_dict after every observing step",
        text="All histories over a 12-letter (thorough: 14) operation alphabet up to depth 4 (thorough: 5, and 6 on a 9-letter alphabet) are executed on "
        "fresh real LU/QR/SVD/Naive/1x1-conv transforms (bare and nested in a CompositeTransform, cache initially on/off); after every forward / "
        "inverse / forward+backward (on batches of 3, 1, 2, ... rows in turn) the results are compared with an uncached twin; an operation the twin supports must not raise. A BFS over the "
        "exact concrete state (mode, flag, dtype, parameter values, cache slots) runs to its fixpoint, so arbitrarily long histories over that alphabet are covered.",
        note="three parameter vectors + in-place nudges; tolerance 1e-4*scale (float32) / 1e-10*scale (float64); BFS hash reads the private cache slots",
        ref="DESIGN.md 4/C10",
    ),
    "C11": dict(
        technique="bounded-exhaustive product exploration of constructor arguments x parameter patterns x dtypes; oracle = mutual consistency of all accessors and both passes with numpy slogdet / matrix identities",
        text="Every parameterisation (Naive with both initialisations, LU and SVD with identity_init on/off, QR, Householder) is constructed for features 1..4 and Householder counts 1..2F+2 "
        "(odd, even, beyond the feature count), under the as-constructed and two quasi-random parameter patterns, in float64 and float32; construction must succeed with finite parameters "
        "unless an explicit argument check rejects it, and weight(), weight_inverse(), logabsdet(), the combined accessors, forward and inverse (matrix() for Householder) must describe one invertible affine map.",
        note="tolerance 1e-10*cond (float64), 2e-4*cond (float32); random_orthogonal checked for Q^T Q = I",
        ref="DESIGN.md 4/C11",
    ),
    "C12": dict(
        technique="bounded-exhaustive enumeration of all ordered batches with repetition (length <= bound) from a fixed pool of distinct rows, on every subject x configuration x pattern; oracle = batch-size-1 evaluation",
        text="For every transform (forward and inverse), distribution and flow (log_prob, transform_to_noise) in evaluation mode, all ordered batches with repetition of "
        "length <=3 (thorough <=4) drawn from a pool of 3 (4) distinct rows with distinct context rows are evaluated; row i of every result must equal the singleton evaluation "
        "of that row. This covers permutation equivariance, duplicate rows, batch size one and mixed inside/outside-tail rows (the mask gather/scatter path).",
        note="1e-9*scale agreement in float64; evaluation mode only; pool rows avoid conditioner-dependent knots",
        ref="DESIGN.md 4/C12",
    ),
    "C13": dict(
        technique="stateless exhaustive exploration of all call histories up to a depth x argument kinds x modes on the real objects, with value/version-counter monitors on arguments and state snapshots after every call",
        text="For every transform, distribution and flow, mode (eval/train) and argument kind (fresh, non-contiguous view, slice of a larger tensor, requires_grad leaf, "
        "non-leaf), all histories of length <=2 (thorough <=3) over forward/inverse (log_prob, sample, sample_and_log_prob, transform_to_noise) are executed; after every "
        "call the caller's tensors (and view bases) must be unchanged by value and version counter, in eval mode every parameter and buffer must be unchanged and a repeated "
        "call must be bit-identical -- also to the same call made as the only call on a freshly built object (order independence) --, tensors returned by earlier calls must keep their values, "
        "in training mode only the documented normalisation statistics may change. Each alphabet includes the first call with arguments in the other floating dtype.",
        note="sampling made reproducible by seeding before each call (deterministic calls get a different RNG state at every step); calls that raise are allowed but must leave everything unchanged",
        ref="DESIGN.md 4/C13",
    ),
    "C14": dict(
        technique="stateless exhaustive exploration of all operation histories up to a depth on the real layers in lock-step with a numpy reference automaton; explicit-state BFS with exact state hashing to the fixpoint for ActNorm",
        text="All histories of length <=5 (thorough <=7) over {train, eval, forward(b1), forward(b2), inverse(b1), save+load into a fresh instance} are replayed on fresh ActNorm (2-D and image) "
        "and BatchNorm layers, bare and nested in a CompositeTransform (driven, saved and loaded through the parent); after every step outputs, log-dets, the complete state dict and the exception type are compared with a reference automaton of the documented life-cycle "
        "(initialise exactly once on the first training forward so that that batch is normalised; batch statistics and the momentum rule only in training forwards; running statistics in eval; "
        "inverse only in eval). The ActNorm state graph is additionally explored breadth-first to its fixpoint (6 states).",
        note="either variance convention (n, n-1) accepted; float64, tolerance 1e-10",
        ref="DESIGN.md 4/C14",
    ),
    "C15": dict(
        technique="exhaustive enumeration of construction-randomness answers (all pairs, through seams on torch.randperm / randint / multinomial) and of model classes x configurations x histories-before-saving; oracle = bitwise agreement between the saved model and a differently-built instance after strict load_state_dict",
        text="For every transform, distribution and flow configuration (<=1 / <=2 deviations) and every history before saving (fresh, data-dependent initialisation, two optimiser steps, "
        "eval-mode calls with caching on) a model A is built and exercised, its state dict is loaded (strict) into an instance B constructed under different randomness, and forward / inverse / "
        "log_prob / transform_to_noise of A and B must be bit-identical in eval mode, and again after both made one more training-mode call on a new batch. Random permutations (n<=3), the 1x1 convolution's permutation, random MADE degrees and random binary masks are "
        "enumerated exhaustively: all pairs (answer for A, answer for B).",
        note="same configuration = same constructor arguments; the number of pairs where A and B differed before loading is reported (vacuity guard)",
        ref="DESIGN.md 4/C15",
    ),
    "C16": dict(
        technique="bounded-exhaustive product exploration (subject x config x pattern x mode), every scalar parameter / input / context coordinate compared with a float64 central finite difference at two step sizes",
        text="For every transform and every flow/distribution configuration (<=1 / <=2 deviations), in eval and in training mode, a fixed-weight scalar of the outputs and log-dets (log_probs) is "
        "back-propagated to every trainable parameter, the inputs and the context; back-propagation must succeed, gradients must be finite, every parameter with a non-zero finite-difference "
        "derivative must receive a gradient, each gradient must equal the central finite difference of the real forward, and the parameter objects present before the first call must still be the module's parameters afterwards.",
        note="rows are generic interior points, one coordinate exactly 0; the MADE mixture also with one component logit at -800; coordinates where two step sizes disagree or the one-sided slopes differ by a step-independent amount (kinks) are skipped and counted; UMNN judged with its quadrature tolerance; at most 160 parameter scalars per case (deterministic stride)",
        ref="DESIGN.md 4/C16",
    ),
    "C17": dict(
        technique="bounded-exhaustive product exploration: boundary alphabet placed at every (batch, feature) position x subject x direction x box/tail bound x dtype x pattern; oracle = exception type / finiteness",
        text="For every domain-restricted transform and direction (Exp/Tanh/Sigmoid/Cauchy inverses, Logit, the four box splines as bare functions with three boxes, as CDF "
        "transforms, couplings (2-D, image, with unconditional transform) and masked autoregressive transforms) and for the unrestricted variants with linear tails (tail bounds 1 .. 1e4), "
        "in float32 and float64, each value of {boundary, 1 ulp inside, 1 ulp outside, 1 unit outside, +-tail bound and neighbours, far tail} is placed at every position of a 3 x D batch: "
        "outside must raise exactly InputOutsideDomain, inside must return finite outputs and log-dets.",
        note="domains as documented (closed boxes, open (0,inf)/(-1,1)); couplings restrict only transformed features",
        ref="DESIGN.md 4/C17",
    ),
    "C18": dict(
        technique="bounded-exhaustive enumeration of the call-argument space (num_samples x batch_size x context rows x illegal arguments) on every distribution/flow configuration, with a tagging seam on torch.randn that makes every draw traceable",
        text="For every distribution and flow configuration, sample / sample_and_log_prob / log_prob are called with num_samples in {1,2,3,5}, batch_size in {None,1,2,3,5,7} (dividing and not "
        "dividing) and 0..3 context rows; shapes must be [n,...] / [rows,n,...] / [rows]; torch.randn hands out successive distinct tagged items, and every returned draw must map back "
        "(transform_to_noise under its own context row, or base standardisation) to a distinct injected item, which pins block i to context row i also for batched generation. Non-positive or "
        "non-integer counts must raise TypeError and a context with a different row count ValueError.",
        note="float32 (library default); trace-back for StandardNormal, flows with a StandardNormal base and ConditionalDiagonalNormal; shape contract only for Bernoulli and the MADE mixture",
        ref="DESIGN.md 4/C18",
    ),
    "C19": dict(
        technique="bounded-exhaustive product exploration; oracle = float64 twin of the same model with a measured-conditioning accuracy band",
        text="Every transform (both directions) and every flow/distribution log_prob is evaluated in float32 on the float32-rounded C01/C02 row alphabets for every configuration "
        "(<=1 / <=2 deviations) and parameter pattern, and compared with a float64 deep copy of the same model: finite, no exception the twin does not raise, result dtype = input "
        "dtype in both precisions, and error within 2^10*eps32*(1+|y|) + 4x the twin's own variation over a 64*eps32 neighbourhood of the input. Wide (32-96 feature) layers and the "
        "data-dependent first training-mode call of ActNorm / BatchNorm on offset batches (up to 50 +- 0.01) are included.",
        note="moderate magnitudes: conditioner outputs capped at 4, sigmoid/logit pairs restricted to |T x| <= 4; cubic-spline and UMNN declared approximations added to the band",
        ref="DESIGN.md 4/C19",
    ),
    "C20": dict(
        technique="bounded-exhaustive enumeration of shapes/arguments (product explorer) against pure-Python reference models",
        text="Every exported helper is executed on the complete product of a small shape/argument alphabet (all shapes with <=3 dims "
        "of sizes 1..3, counts 1..3, dtypes, layouts; all sorted edge vectors over a 5-value alphabet; all small integer matrices "
        "with non-zero determinant; every multinomial answer for the random mask) and compared with nested-loop Python references; "
        "arguments are monitored for in-place writes by value and version counter.",
        note="finite value alphabets; references are the specification; torch.multinomial replaced by an enumerating seam",
        ref="DESIGN.md 4/C20",
    ),
}

ALL = ["C%02d" % i for i in range(1, 21)]
NOT_YET = "not claimed"


def main():
    checks = []
    for pid in ALL:
        if pid not in CHECKS:
            continue
        c = CHECKS[pid]
        checks.append(
            {
                "property_id": pid,
                "quick_cmd": "/venv/bin/python -m mc.check %s --tier quick" % pid,
                "thorough_cmd": "/venv/bin/python -m mc.check %s --tier thorough" % pid,
                "evidence_file": "/verif/evidence/%s.json" % pid,
                "replay_cmd_template": "/venv/bin/python -m mc.check %s --replay {path}" % pid,
                "engine": "mc",
                "level_claimed": {"category": "model_checking", "text": c["text"], "design_ref": c["ref"]},
                "level_note": c["note"],
                "technique": c["technique"],
            }
        )
    man = {
        "version": 1,
        "setup_cmd": "/venv/bin/python -c \"import sys; sys.path.insert(0,'/repo'); import torch, nflows, mc.common\"",
        "hooks": {
            "guard": "BAYESIAINS_NFLOWS_VERIF",
            "enable": "no source hooks are needed: checks import nflows from /repo's working tree (NFLOWS_SRC, default /repo) and observe it through public API, forward pre-hooks, tensor version counters and unittest.mock seams on torch RNG functions",
            "baseline_off_cmd": "cd /repo && /venv/bin/python -m pytest -ra -q -p no:cacheprovider --timeout=900 --continue-on-collection-errors",
            "source_commits": [],
            "add_only": True,
        },
        "engines": [
            {
                "name": "mc",
                "path": "/verif/mc",
                "serves_properties": [c["property_id"] for c in checks],
                "kind_free_text": "hand-written bounded-exhaustive explorers in Python driving the real nflows objects: E1 product explorer (subject x config x parameter pattern x input cell), E2 history explorer (all call sequences up to a depth + state-hashed BFS), E3 program explorer (all well-typed compositions up to a size)",
            }
        ],
        "checks": checks,
        "not_applicable": [{"property_id": p, "reason": NOT_YET} for p in ALL if p not in CHECKS],
        "notes": "All checks: cwd=/verif, run with /venv/bin/python, honour VERIF_SEED / VERIF_TIER, import nflows from /repo (override NFLOWS_SRC). Known findings: /verif/known_findings.json.",
    }
    with open(os.path.join(V, "MANIFEST.json"), "w") as f:
        json.dump(man, f, indent=1)
    print("wrote MANIFEST.json with %d checks" % len(checks))


if __name__ == "__main__":
    main()
