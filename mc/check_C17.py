"""C17 -- out-of-domain inputs are rejected, in-domain inputs never fail (E1 product explorer).

Every domain-restricted transform x direction x configuration (boxes, tail bounds up to 1e4) x dtype
x pattern; a boundary alphabet {boundary, 1 ulp inside, 1 ulp outside, 1 unit outside} is placed at
every (batch, feature) position of a 3 x D batch in turn, all other entries interior.
"""
import math

import numpy as np
import torch

from mc import catalog as C
from mc.common import bump, new_result
from mc.harness import context_for, dev_signature
from mc.numerics import base_row
from nflows import transforms as T
from nflows.transforms.base import InputOutsideDomain

PROPERTY = "C17"
RULE = (
    "restricted-domain subjects (Exp/Tanh/Sigmoid/CauchyCDF inverses, Logit/CauchyCDFInverse forwards, the 4 bare box splines with 3 boxes, the 4 CDF transforms, "
    "the 4 piecewise couplings (2-D and image), the 4 masked autoregressive splines; both directions) and unrestricted ones with linear tails (tail bounds 1, 2.5, 16, 32, "
    "100, 1e3, 1e4) x dtype {float32, float64} x pattern {zero, pat1} x boundary alphabet {lo, hi, 1 ulp inside, 1 ulp outside, 1 unit outside, +-tail bound and ulp "
    "neighbours; the unrestricted direction of the elementwise subjects: 0, +-30, +-80} placed at EVERY (batch row, feature) position of a 3 x D batch with all other entries interior. Non-trivial = the probe value is not interior."
)
ASSUMPTIONS = [
    "the domain of each direction is taken from the documentation: closed [left,right] / [bottom,top] for box splines, (0,inf) for Exp^-1, (-1,1) for Tanh^-1, [0,1] for Sigmoid^-1 and CauchyCDF^-1",
    "coupling layers restrict only their transformed features (identity features and context are unrestricted)",
    "rejected means exactly nflows.transforms.base.InputOutsideDomain; accepted means no exception and finite outputs and log-abs-det",
]

TBS = [1.0, 2.5, 16.0, 32.0, 100.0, 1e3, 1e4, 1.7, 0.1]  # the last two are not representable in float32 (they round upwards)
DT = {"float64": torch.float64, "float32": torch.float32}


def bounds(tier, seed):
    return {"tail_bounds": TBS, "dtypes": list(DT), "batch": "3 x D, every position", "patterns": ["zero", "pat1"]}


def subjects(tier):
    """(subject name, cfg, forward domain spec, inverse domain spec); spec = (lo, hi, lo_closed, hi_closed) or None for R"""
    out = []
    R = None
    for n in ("Exp",):
        out.append((n, {}, R, (0.0, None, False, False)))
    out.append(("Tanh", {}, R, (-1.0, 1.0, False, False)))
    for t in (1, 2.5):
        out.append(("Sigmoid", {"temperature": t}, R, (0.0, 1.0, True, True)))
        out.append(("Logit", {"temperature": t}, (0.0, 1.0, True, True), R))
    # a small non-default clamp eps on a module left in its construction dtype (float32) while the data are float64 as well as float32
    out.append(("Sigmoid", {"temperature": 1, "eps_unconverted": 1e-8}, R, (0.0, 1.0, True, True)))
    out.append(("Logit", {"temperature": 1, "eps_unconverted": 1e-8}, (0.0, 1.0, True, True), R))
    out.append(("CauchyCDF", {}, R, (0.0, 1.0, True, True)))
    out.append(("CauchyCDFInverse", {}, (0.0, 1.0, True, True), R))
    for fam in ("linear", "quadratic", "cubic", "rq"):
        for box in ("unit", "nonsquare", "shifted"):
            l, r, b, t = C.BOXES[box]
            out.append(("splinefn_" + fam, {"box": box}, (l, r, True, True), (b, t, True, True)))
        for tb in TBS:
            out.append(("splinefn_" + fam, {"tb": tb}, ("tails", tb), ("tails", tb)))
    unit = (0.0, 1.0, True, True)
    for cls in ("PiecewiseLinearCDF", "PiecewiseQuadraticCDF", "PiecewiseCubicCDF", "PiecewiseRationalQuadraticCDF"):
        out.append((cls, {}, unit, unit))
        out.append((cls, {"shape": "4d"}, unit, unit))
        for tb in (TBS if tier == "thorough" else [1.0, 32.0, 1e4, 1.7]):
            out.append((cls, {"tb": tb}, ("tails", tb), ("tails", tb)))
    for cls in ("PiecewiseLinearCouplingTransform", "PiecewiseQuadraticCouplingTransform", "PiecewiseCubicCouplingTransform", "PiecewiseRationalQuadraticCouplingTransform"):
        out.append((cls, {}, unit, unit))
        out.append((cls, {"dims": "4d"}, unit, unit))
        out.append((cls, {"uncond": True}, unit, unit))
        for tb in (TBS if tier == "thorough" else [2.5, 32.0, 1e3, 1.7]):
            out.append((cls, {"tb": tb}, ("tails", tb), ("tails", tb)))
        for tb in ([1.0, 2.5, 1.7, 32.0] if tier == "thorough" else [2.5]):
            out.append((cls, {"tb": tb, "uncond": True}, ("tails", tb), ("tails", tb)))
    for cls in ("MaskedPiecewiseLinearAutoregressiveTransform", "MaskedPiecewiseCubicAutoregressiveTransform"):
        out.append((cls, {}, unit, unit))
    for cls in ("MaskedPiecewiseQuadraticAutoregressiveTransform", "MaskedPiecewiseRationalQuadraticAutoregressiveTransform"):
        out.append((cls, {}, unit, unit))
        for tb in (TBS if tier == "thorough" else [1.0, 32.0, 1e4, 1.7]):
            out.append((cls, {"tb": tb}, ("tails", tb), ("tails", tb)))
    return out


def nxt(v, d, npdt):
    return float(np.nextafter(npdt(v), npdt(d)))


def probes(spec, npdt):
    """list of (value, expected 'in'|'out', cell class)"""
    out = []
    if spec is None:
        # the whole real line: every representable moderate value must give finite numbers (+-80: exp(80) is still a float32)
        return [(0.0, "in", "zero"), (30.0, "in", "far"), (-30.0, "in", "far"), (80.0, "in", "farther"), (-80.0, "in", "farther")]
    if spec[0] == "tails":
        tb = spec[1]
        for s in (1.0, -1.0):
            out += [(s * tb, "in", "tail-bound"), (nxt(s * tb, 0.0, npdt), "in", "tail-bound-inside"), (nxt(s * tb, s * math.inf, npdt), "in", "tail-bound-outside"),
                    (s * (tb + 1.0), "in", "beyond-tail"), (s * tb * 1e3, "in", "far-tail")]
        out.append((0.0, "in", "zero"))
        return out
    lo, hi, loc, hic = spec
    if lo is not None:
        out += [(lo, "in" if loc else "out", "boundary"), (nxt(lo, math.inf, npdt), "in", "1ulp-inside"), (nxt(lo, -math.inf, npdt), "out", "1ulp-outside"), (lo - 1.0, "out", "1unit-outside")]
    if hi is not None:
        out += [(hi, "in" if hic else "out", "boundary"), (nxt(hi, -math.inf, npdt), "in", "1ulp-inside"), (nxt(hi, math.inf, npdt), "out", "1ulp-outside"), (hi + 1.0, "out", "1unit-outside")]
    else:
        out += [(1e6, "in", "far")]
    return out


def interior(spec, D, k):
    if spec is None:
        return base_row(D, (None, None), k)
    if spec[0] == "tails":
        return base_row(D, (None, None), k) * min(1.0, spec[1])
    lo, hi = spec[0], spec[1]
    if hi is None:
        return base_row(D, (lo, None), k)
    return base_row(D, (lo, hi), k)


def restricted_positions(s, m, shape):
    """flat feature indices whose value is domain-checked"""
    D = int(np.prod(shape))
    if hasattr(m, "transform_features") and getattr(m, "unconditional_transform", None) is None:
        tf = set(int(i) for i in m.transform_features)
        per = D // shape[0]
        return [i for i in range(D) if (i // per) in tf]
    return list(range(D))


def check_case(case):
    sname, over, pname, seed, dname, direction, spec = case["subject"], case["over"], case["pattern"], case["seed"], case["dtype"], case["direction"], case["spec"]
    spec = None if spec is None else tuple(spec)
    s = C.SUBJECTS[sname]
    cfg = dict(s.default())
    cfg.update(over)
    dtype = DT[dname]
    npdt = np.float64 if dname == "float64" else np.float32
    m = C.materialise(s, cfg, pname, seed, dtype=dtype)
    if "eps_unconverted" in over:
        m = (T.Logit if sname == "Logit" else T.Sigmoid)(temperature=over["temperature"], eps=over["eps_unconverted"]).eval()  # no .double(): used as constructed
    shape = s.shape(cfg) if direction == "forward" else s.out_shape(cfg)
    D = int(np.prod(shape))
    B = 3
    fill = np.stack([interior(spec, D, seed + k) for k in range(B)])
    fn = m.forward if direction == "forward" else m.inverse
    ctx = context_for(s, cfg, B, dtype)
    restricted = set(restricted_positions(s, m, shape)) if (spec is not None and spec[0] != "tails") else set(range(D))
    out = []
    stats = {"n": 0, "nontrivial": 0, "classes": {}}
    positions = case.get("positions") or [(b, f) for b in range(B) for f in range(D)]
    for (b, f) in positions:
        for val, exp, cell in probes(spec, npdt):
            if case.get("only_value") is not None and float(val) != float(case["only_value"]):
                continue
            X = fill.copy()
            X[b, f] = val
            expect = exp if f in restricted else "in"
            x = torch.tensor(X, dtype=dtype).reshape(B, *shape)
            stats["n"] += 1
            if cell not in ("zero",):
                stats["nontrivial"] += 1
            err = None
            y = ld = None
            try:
                with torch.no_grad():
                    y, ld = fn(x, ctx) if ctx is not None else fn(x)
            except Exception as e:
                err = e
            oc = "%s:%s" % (expect, "raised" if err is not None else "returned")
            stats["classes"][oc] = stats["classes"].get(oc, 0) + 1
            where = "%s %s at batch row %d feature %d value %r (%s, %s)" % (sname, direction, b, f, val, cell, dname)
            if expect == "out":
                if err is None:
                    out.append((cell, "out-of-domain input accepted", "%s: returned numbers instead of raising InputOutsideDomain (output there: %r)" % (where, float(y.reshape(B, -1)[b, f])), (b, f, val)))
                elif not isinstance(err, InputOutsideDomain):
                    out.append((cell, "wrong exception %s" % type(err).__name__, "%s: raised %s instead of InputOutsideDomain: %s" % (where, type(err).__name__, str(err)[:100]), (b, f, val)))
            else:
                if err is not None:
                    out.append((cell, "in-domain input raises %s" % type(err).__name__, "%s: raised %s: %s" % (where, type(err).__name__, str(err)[:100]), (b, f, val)))
                elif not (torch.isfinite(y).all() and torch.isfinite(ld).all()):
                    out.append((cell, "in-domain input gives non-finite result", "%s: outputs/logabsdet not finite (logabsdet row: %r)" % (where, float(ld[b])), (b, f, val)))
    return out, stats


def all_cases(tier, seed):
    for sname, over, fspec, ispec in subjects(tier):
        s = C.SUBJECTS[sname]
        pats = [p for p in ("zero", "pat1") if p in s.patterns] or ["init"]
        for pname in pats:
            for dname in DT:
                if "eps_unconverted" in over and dname == "float32":
                    continue  # (1 - 1e-8 is not a float32: with float32 data such an eps is the user's mistake, not the library's)
                for direction, spec in (("forward", fspec), ("inverse", ispec)):
                    if spec is None and sname.startswith(("splinefn_", "Piecewise", "MaskedPiecewise")):
                        continue  # (spline subjects: the unrestricted case is the one with tails, enumerated separately)
                    yield {"subject": sname, "over": over, "pattern": pname, "seed": seed, "dtype": dname, "direction": direction, "spec": None if spec is None else list(spec)}


def units(tier, seed):
    cases = list(all_cases(tier, seed))
    n = 48
    return [cases[i::n] for i in range(n)]


def run_unit(unit):
    res = new_result()
    for case in unit:
        try:
            vs, st = check_case(case)
        except Exception as e:
            bump(res["skipped"], "cannot-construct: %s" % type(e).__name__)
            continue
        res["evaluations"] += st["n"]
        res["states"] += st["n"]
        res["transitions"] += st["n"]
        res["traces"] += st["n"]
        res["nontrivial"] += st["nontrivial"]
        for k, v in st["classes"].items():
            bump(res["outcomes"], k, v)
        s = C.SUBJECTS[case["subject"]]
        cfg = dict(s.default())
        cfg.update(case["over"])
        sig = dev_signature(s, cfg)
        for cell, sym, msg, (b, f, val) in vs:
            c2 = dict(case)
            c2["positions"] = [[b, f]]
            c2["only_value"] = val
            res["violations"].append({"key": "%s|%s|%s:%s:%s|%s" % (case["subject"], sig, case["direction"], case["dtype"], cell, sym), "case": c2, "msg": "pattern=%s: %s" % (case["pattern"], msg)})
        if not res["samples"]:
            res["samples"].append(case)
    return res


def replay(case):
    c = dict(case)
    c["positions"] = [tuple(p) for p in case["positions"]]
    vs, _ = check_case(c)
    s = C.SUBJECTS[case["subject"]]
    cfg = dict(s.default())
    cfg.update(case["over"])
    sig = dev_signature(s, cfg)
    return [{"key": "%s|%s|%s:%s:%s|%s" % (case["subject"], sig, case["direction"], case["dtype"], cell, sym), "case": case, "msg": "pattern=%s: %s" % (case["pattern"], msg)} for cell, sym, msg, _ in vs]
