"""Shared runner: unit scheduling, violation grouping, known findings, evidence, replay.

Every check module `mc.check_Cxx` provides

    PROPERTY  : "Cxx"
    RULE      : str  -- how cases are enumerated / what makes one non-trivial
    ASSUMPTIONS : list[str]
    units(tier, seed) -> list of picklable unit descriptors (enumeration order = simplest first)
    run_unit(unit)    -> UnitResult (see new_result())
    replay(case)      -> list of violation dicts for that single case (plain re-execution, no explorer)

The runner executes all units (16 processes, one torch thread each), merges the results in
*enumeration* order, groups violations by finding key, re-executes the first case of every key
twice (determinism self-test), matches keys against /verif/known_findings.json, writes replay
files and the evidence file, prints the VIOLATION / KNOWN-FINDING lines and returns the exit code.
"""
import hashlib
import importlib
import json
import multiprocessing
import os
import sys
import time
import traceback
import warnings

NFLOWS_SRC = os.environ.get("NFLOWS_SRC", "/repo")
if NFLOWS_SRC not in sys.path:
    sys.path.insert(0, NFLOWS_SRC)
os.environ.setdefault("OMP_NUM_THREADS", "1")
os.environ.setdefault("MKL_NUM_THREADS", "1")
warnings.filterwarnings("ignore")

import torch  # noqa: E402

torch.set_num_threads(1)

VERIF = os.path.dirname(os.path.dirname(os.path.abspath(__file__)))
KNOWN_FINDINGS = os.path.join(VERIF, "known_findings.json")
NPROC = int(os.environ.get("VERIF_NPROC", "16"))


def new_result():
    return {
        "states": 0,  # distinct (subject, config, pattern, dtype, mode, history/input) materialised
        "transitions": 0,  # library calls executed from those states
        "traces": 0,  # executions compared step by step with the reference model / oracle
        "evaluations": 0,  # cases generated
        "nontrivial": 0,  # distinct non-trivial cases (rule in RULE)
        "outcomes": {},  # outcome class -> count (to recognise vacuous runs)
        "violations": [],  # dicts: key, case, msg
        "samples": [],  # a few cases written out
        "skipped": {},  # reason -> count
        "caps": [],  # caps hit (a capped run is never called exhaustive)
        "errors": [],  # harness errors (not violations)
    }


def bump(d, k, n=1):
    d[k] = d.get(k, 0) + n


def violation(res, key, case, msg):
    res["violations"].append({"key": key, "case": case, "msg": msg})


def jsonable(x):
    """Convert tensors / numpy / tuples to plain JSON values (floats as repr-exact hex when needed)."""
    import numpy as np

    if isinstance(x, torch.Tensor):
        return jsonable(x.detach().cpu().tolist())
    if isinstance(x, np.ndarray):
        return jsonable(x.tolist())
    if isinstance(x, (np.floating,)):
        return float(x)
    if isinstance(x, (np.integer,)):
        return int(x)
    if isinstance(x, (np.bool_,)):
        return bool(x)
    if isinstance(x, dict):
        return {str(k): jsonable(v) for k, v in x.items()}
    if isinstance(x, (list, tuple)):
        return [jsonable(v) for v in x]
    if isinstance(x, float):
        if x != x:
            return "nan"
        if x in (float("inf"), float("-inf")):
            return "inf" if x > 0 else "-inf"
        return x
    if isinstance(x, (int, str, bool)) or x is None:
        return x
    return repr(x)


def _worker(args):
    modname, unit = args
    mod = importlib.import_module(modname)
    try:
        torch.set_num_threads(1)
        res = mod.run_unit(unit)
        for v in res["violations"]:
            v["unit"] = unit
    except Exception:  # harness error: never reported as a violation
        res = new_result()
        res["errors"].append({"unit": repr(unit)[:500], "trace": traceback.format_exc()[-3000:]})
    return res


def merge(into, res):
    for k in ("states", "transitions", "traces", "evaluations", "nontrivial"):
        into[k] += res[k]
    for k, v in res["outcomes"].items():
        bump(into["outcomes"], k, v)
    for k, v in res["skipped"].items():
        bump(into["skipped"], k, v)
    into["violations"].extend(res["violations"])
    if len(into["samples"]) < 6:
        into["samples"].extend(res["samples"][: 6 - len(into["samples"])])
    for c in res["caps"]:
        if c not in into["caps"]:
            into["caps"].append(c)
    into["errors"].extend(res["errors"])


def _detuple(x):
    """units are tuples of scalars / dicts / lists; JSON turns tuples into lists, which every run_unit unpacks just the same"""
    return tuple(x) if isinstance(x, list) else x


def load_known():
    if not os.path.exists(KNOWN_FINDINGS):
        return []
    with open(KNOWN_FINDINGS) as f:
        return json.load(f).get("findings", [])


def repo_commit():
    try:
        import subprocess

        return subprocess.run(
            ["git", "-C", NFLOWS_SRC, "rev-parse", "--short", "HEAD"], capture_output=True, text=True
        ).stdout.strip()
    except Exception:
        return "unknown"


def run_units(modname, units):
    total = new_result()
    jobs = [(modname, u) for u in units]
    if NPROC <= 1 or len(jobs) <= 1:
        for j in jobs:
            merge(total, _worker(j))
    else:
        ctx = multiprocessing.get_context("fork")
        with ctx.Pool(min(NPROC, len(jobs))) as pool:
            for res in pool.imap(_worker, jobs, chunksize=1):  # ordered: enumeration order
                merge(total, res)
    return total


def main_check(modname, tier, seed, replay_path=None, extra_cov=None):
    mod = importlib.import_module(modname)
    pid = mod.PROPERTY
    t0 = time.time()

    if replay_path is not None:
        with open(replay_path) as f:
            rep = json.load(f)
        if isinstance(rep["case"], dict) and "__unit__" in rep["case"]:
            # a finding that needs the unit's whole sequence of calls on one object (state kept between calls)
            vs = [v for v in mod.run_unit(_detuple(rep["case"]["__unit__"]))["violations"] if v["key"] == rep["case"]["key"]]
        else:
            vs = mod.replay(rep["case"])
        if vs:
            for v in vs:
                print("REPLAY-VIOLATION property=%s key=%s :: %s" % (pid, v["key"], v["msg"]))
            print("VIOLATION property=%s replay=%s" % (pid, replay_path))
            return 1
        print("REPLAY-OK property=%s (case no longer violates)" % pid)
        return 0

    units = mod.units(tier, seed)
    total = run_units(modname, units)

    if total["errors"]:
        for e in total["errors"][:5]:
            sys.stderr.write("HARNESS-ERROR unit=%s\n%s\n" % (e["unit"], e["trace"]))
        sys.stderr.write("HARNESS-ERROR count=%d (no verdict)\n" % len(total["errors"]))
        return 3

    # group by key, first case in enumeration order
    groups = {}
    order = []
    size_of = getattr(mod, "case_size", None)
    for v in total["violations"]:
        if v["key"] not in groups:
            groups[v["key"]] = {"first": v, "count": 0}
            order.append(v["key"])
        elif size_of is not None and size_of(v["case"]) < size_of(groups[v["key"]]["first"]["case"]):
            groups[v["key"]]["first"] = v  # keep the smallest counterexample (shortest history)
        groups[v["key"]]["count"] += 1

    known = [k for k in load_known() if k.get("property") == pid]
    import re as _re

    open_exact = {k["key"]: k for k in known if k.get("status") == "open" and "key" in k}
    open_regex = [(_re.compile(k["key_regex"]), k) for k in known if k.get("status") == "open" and "key_regex" in k]

    class _Open:
        def get(self, key):
            if key in open_exact:
                return open_exact[key]
            for rx, k in open_regex:
                if rx.fullmatch(key):
                    return k
            return None

        def __contains__(self, key):
            return self.get(key) is not None

        def __getitem__(self, key):
            return self.get(key)

    open_keys = _Open()

    # determinism self-test: replay the first case of every key twice
    nondet = []
    for key in order:
        case = groups[key]["first"]["case"]
        try:
            r1 = mod.replay(case)
            r2 = mod.replay(case)
        except Exception:
            sys.stderr.write("HARNESS-ERROR replay of key=%s raised\n%s\n" % (key, traceback.format_exc()[-2000:]))
            return 3
        k1 = sorted(v["key"] + "::" + v["msg"] for v in r1)
        k2 = sorted(v["key"] + "::" + v["msg"] for v in r2)
        if k1 == k2 and key not in [v["key"] for v in r1] and "unit" in groups[key]["first"]:
            # the isolated case is (deterministically) clean: the finding may need the calls made before it on the same
            # object. Re-run its whole unit twice; if the key comes back both times the unit is the replayable artefact.
            unit = groups[key]["first"]["unit"]
            try:
                u1 = [v for v in mod.run_unit(unit)["violations"] if v["key"] == key]
                u2 = [v for v in mod.run_unit(unit)["violations"] if v["key"] == key]
            except Exception:
                sys.stderr.write("HARNESS-ERROR unit replay of key=%s raised\n%s\n" % (key, traceback.format_exc()[-2000:]))
                return 3
            if u1 and [v["msg"] for v in u1] == [v["msg"] for v in u2]:
                groups[key]["first"] = dict(u1[0], case={"__unit__": jsonable(unit), "key": key},
                                            msg=u1[0]["msg"] + " [needs the unit's earlier calls on the same object: not reproducible as an isolated call]")
                continue
        if k1 != k2 or key not in [v["key"] for v in r1]:
            nondet.append((key, k1, k2))
    if nondet:
        for key, k1, k2 in nondet[:5]:
            sys.stderr.write("HARNESS-ERROR nondeterministic replay key=%s\n  run1=%s\n  run2=%s\n" % (key, k1[:3], k2[:3]))
        return 3

    n_new = 0
    rdir = os.path.join(os.environ.get("VERIF_EVIDENCE_DIR") or VERIF, "replays", pid)
    lines = []
    seen_known = []
    for key in order:
        g = groups[key]
        if key in open_keys:
            seen_known.append(key)
            lines.append("KNOWN-FINDING: property=%s %s [key=%s, %d case(s)]" % (pid, open_keys[key]["what"], key, g["count"]))
            continue
        n_new += 1
        os.makedirs(rdir, exist_ok=True)
        h = hashlib.sha1(key.encode()).hexdigest()[:12]
        path = os.path.join(rdir, h + ".json")
        with open(path, "w") as f:
            json.dump(
                {
                    "property": pid,
                    "key": key,
                    "msg": g["first"]["msg"],
                    "count": g["count"],
                    "case": g["first"]["case"],
                    "tier": tier,
                    "seed": seed,
                    "repo_commit": repo_commit(),
                    "replay_cmd": "/venv/bin/python -m mc.check %s --replay %s" % (pid, path),
                },
                f,
                indent=1,
            )
        lines.append("VIOLATION-DETAIL property=%s key=%s count=%d :: %s" % (pid, key, g["count"], g["first"]["msg"]))
        lines.append("VIOLATION property=%s replay=%s" % (pid, path))

    wall = time.time() - t0
    cov = {
        "states": total["states"],
        "transitions": total["transitions"],
        "traces_validated_against_impl": total["traces"],
        "evaluations": total["evaluations"],
        "distinct_nontrivial": total["nontrivial"],
        "rule": mod.RULE,
        "samples": jsonable(total["samples"][:6]) or ["(none)"],
        "exhaustive": not total["caps"],
        "caps_hit": total["caps"],
        "units": len(units),
        "distinct_outcome_classes": len(total["outcomes"]),
        "outcomes": dict(sorted(total["outcomes"].items(), key=lambda kv: -kv[1])[:40]),
        "skipped": total["skipped"],
        "violation_keys": {k: groups[k]["count"] for k in order},
        "known_findings_seen": seen_known,
        "repo_commit": repo_commit(),
        "nflows_src": NFLOWS_SRC,
    }
    if hasattr(mod, "bounds"):
        cov["bounds"] = jsonable(mod.bounds(tier, seed))
    ev = {
        "property_id": pid,
        "tier": tier,
        "seed": int(seed),
        "level": "model_checking",
        "coverage": cov,
        "assumptions": list(mod.ASSUMPTIONS),
        "wall_s": round(wall, 2),
        "violations": n_new,
    }
    evdir = os.environ.get("VERIF_EVIDENCE_DIR") or os.path.join(VERIF, "evidence")  # (mutant runs write elsewhere)
    os.makedirs(evdir, exist_ok=True)
    with open(os.path.join(evdir, pid + ".json"), "w") as f:
        json.dump(ev, f, indent=1)
    for ln in lines:
        print(ln)
    print(
        "%s tier=%s seed=%s units=%d states=%d transitions=%d traces=%d nontrivial=%d outcome_classes=%d new_violation_keys=%d known=%d wall=%.1fs%s"
        % (pid, tier, seed, len(units), total["states"], total["transitions"], total["traces"], total["nontrivial"], len(total["outcomes"]), n_new, len(seen_known), wall, (" CAPS=" + ";".join(total["caps"])) if total["caps"] else "")
    )
    return 1 if n_new else 0
