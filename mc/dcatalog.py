"""Catalogue of distributions and flows (density-returning objects) with configuration axes."""
import itertools

import numpy as np
import torch
from torch import nn
from torch.nn import functional as F

from nflows import distributions as D
from nflows import flows as FL
from nflows import transforms as T
from nflows.distributions import uniform as U
from nflows.nn import nets

from mc.params import fill, pat_tensor
from mc import catalog as C


class DSubject:
    def __init__(self, name, axes, build, event_shape, ctx_shape=None, patterns=("init", "pat1"), is_flow=False, takes_context=True,
                 torch_tensor_api=True, can_sample=True, has_mean=False, binary=False, valid=None, post=None, needs_context=False):
        self.name, self.axes, self._build = name, axes, build
        self._event_shape, self._ctx_shape = event_shape, ctx_shape
        self.patterns = patterns
        self.is_flow, self.takes_context, self.torch_tensor_api = is_flow, takes_context, torch_tensor_api
        self.can_sample, self.has_mean, self.binary = can_sample, has_mean, binary
        self._valid = valid
        self._post = post
        self.needs_context = needs_context

    def default(self):
        return {a: v[0] for a, v in self.axes.items()}

    def build(self, cfg):
        return self._build(cfg)

    def event_shape(self, cfg):
        return tuple(self._event_shape(cfg) if callable(self._event_shape) else self._event_shape)

    def ctx_shape(self, cfg):
        if self._ctx_shape is None:
            return None
        r = self._ctx_shape(cfg) if callable(self._ctx_shape) else self._ctx_shape
        return None if r is None else tuple(r)

    def points(self, cfg, n, seed=0, dtype=torch.float64):
        es = self.event_shape(cfg)
        x = torch.stack([pat_tensor(es, 2 + k + seed, 1.1, offset=3 * k, dtype=dtype) for k in range(n)])
        if self.binary:
            x = (x > 0).to(dtype)
        return x

    def contexts(self, cfg, n, seed=0, dtype=torch.float64):
        cs = self.ctx_shape(cfg)
        if cs is None:
            return None
        return torch.stack([pat_tensor(cs, 4 + k + seed, 0.8, offset=5 * k, dtype=dtype) for k in range(n)])

    def valid(self, cfg):
        return self._valid(cfg) if self._valid else True


def enum_configs(d, k):
    base = d.default()
    axes = list(d.axes)
    out = [dict(base)]
    for nd in range(1, k + 1):
        for combo in itertools.combinations(axes, nd):
            for vals in itertools.product(*[d.axes[a][1:] for a in combo]):
                c = dict(base)
                for a, v in zip(combo, vals):
                    c[a] = v
                out.append(c)
    return [c for c in out if d.valid(c)]


def dev_signature(d, cfg):
    df = d.default()
    return ",".join("%s=%s" % (a, cfg[a]) for a in sorted(cfg) if cfg[a] != df[a]) or "default"


def materialise(d, cfg, pname, seed, dtype=torch.float64, train=False):
    with torch.random.fork_rng():
        torch.manual_seed(2000 + seed)
        obj = d.build(cfg)
    if isinstance(obj, nn.Module):
        pat = C.pattern_for(pname, seed)
        fill(obj, pat)
        if pat[0] == "pat":
            # moderate magnitudes: damp the last layer of every conditioner (O(1) weights in every layer give scales of
            # 1e-3 .. 1e3 per flow layer, i.e. condition numbers beyond float32)
            with torch.no_grad():
                for mod in obj.modules():
                    net = getattr(mod, "autoregressive_net", None) or getattr(mod, "transform_net", None)
                    last = getattr(net, "final_layer", None) if net is not None else None
                    if last is None and isinstance(mod, D.MADEMoG):
                        last = mod._made.final_layer
                    if last is not None:
                        last.weight.mul_(0.25)
                        if last.bias is not None:
                            last.bias.mul_(0.25)
        if d._post:
            d._post(obj, cfg)
        if dtype == torch.float64:
            obj = obj.double()
        obj.train(train)
    return obj


DSUBJECTS = {}


def reg(d):
    DSUBJECTS[d.name] = d
    return d


SHAPES = [[2], [1], [3], [2, 2]]
reg(DSubject("StandardNormal", {"shape": SHAPES, "context": [False, True]}, lambda c: D.StandardNormal(c["shape"]), lambda c: c["shape"],
             ctx_shape=lambda c: (3,) if c["context"] else None, patterns=("init",), has_mean=True))
reg(DSubject("DiagonalNormal", {"shape": SHAPES}, lambda c: D.DiagonalNormal(c["shape"]), lambda c: c["shape"], patterns=("init", "pat1"), can_sample=False, has_mean=True))


class LinEnc(nn.Module):
    def __init__(self, i, o):
        super().__init__()
        self.l = nn.Linear(i, o)

    def forward(self, x):
        return self.l(x.reshape(x.shape[0], -1))


class MlpEnc(nn.Module):
    """context encoder built from the library's MLP with several hidden layers"""

    def __init__(self, i, o):
        super().__init__()
        self.net = nets.MLP([i], [o], [4, 5, 3], activation=torch.tanh)

    def forward(self, x):
        return self.net(x.reshape(x.shape[0], -1))


def _cdn(c):
    n = int(np.prod(c["shape"]))
    if c["encoder"] == "image":
        enc = nn.Sequential(nn.Flatten(), LinEnc(4, 2 * n))  # an image-shaped context [k, 2, 1, 2], flattened by the encoder
    else:
        enc = None if c["encoder"] == "identity" else (LinEnc(3, 2 * n) if c["encoder"] == "linear" else MlpEnc(3, 2 * n))
    return D.ConditionalDiagonalNormal(c["shape"], context_encoder=enc)


reg(DSubject("ConditionalDiagonalNormal", {"shape": SHAPES, "encoder": ["identity", "linear", "mlp", "image"]}, _cdn, lambda c: c["shape"],
             ctx_shape=lambda c: (2 * int(np.prod(c["shape"])),) if c["encoder"] == "identity" else ((2, 1, 2) if c["encoder"] == "image" else (3,)), patterns=("init", "pat1"), has_mean=True, needs_context=True))


def _cib(c):
    n = int(np.prod(c["shape"]))
    enc = None if c["encoder"] == "identity" else LinEnc(3, n)
    return D.ConditionalIndependentBernoulli(c["shape"], context_encoder=enc)


reg(DSubject("ConditionalIndependentBernoulli", {"shape": SHAPES, "encoder": ["identity", "linear"]}, _cib, lambda c: c["shape"],
             ctx_shape=lambda c: (int(np.prod(c["shape"])),) if c["encoder"] == "identity" else (3,), patterns=("init", "pat1"), has_mean=True, binary=True, needs_context=True))


def _mog(c):
    return D.MADEMoG(features=c["features"], hidden_features=c["hidden"], context_features=2 if c["context"] else None, num_blocks=c["blocks"],
                     num_mixture_components=c["components"], use_residual_blocks=c["blocktype"] == "residual", random_mask=c["blocktype"] == "ff_random",
                     custom_initialization=c["custom_init"])


reg(DSubject("MADEMoG", {"features": [2, 1, 3], "hidden": [6, 3], "context": [True, False], "blocks": [1, 0, 2], "components": [2, 1, 3], "blocktype": ["residual", "ff", "ff_random"],
                         "custom_init": [False, True]}, _mog, lambda c: (c["features"],), ctx_shape=lambda c: (2,) if c["context"] else None, patterns=("init", "pat1")))

# ---- flows


class Emb(nn.Module):
    def __init__(self, i, o):
        super().__init__()
        self.l = nn.Linear(i, o)

    def forward(self, x):
        return torch.tanh(self.l(x))


def _flow(c):
    f = c["features"]
    ctxdim = None
    emb = None
    if c["context"] == "raw":
        ctxdim = 2
    elif c["context"] == "embedded":
        ctxdim = 2
        emb = Emb(3, 2)
    elif c["context"] == "embedded_mlp":
        ctxdim = 2
        emb = MlpEnc(3, 2)
    tr = c["transform"]
    if tr == "ar_affine":
        t = T.CompositeTransform([T.MaskedAffineAutoregressiveTransform(f, 5, context_features=ctxdim, num_blocks=1), T.ReversePermutation(f),
                                  T.MaskedAffineAutoregressiveTransform(f, 5, context_features=ctxdim, num_blocks=1, use_residual_blocks=False)])
    elif tr == "coupling_rq":
        mask = [1, 0, 1][:f] if f > 1 else [1]
        if f == 1:
            t = T.PiecewiseRationalQuadraticCDF([1], num_bins=3, tails="linear", tail_bound=2.5)
        else:
            t = T.CompositeTransform([T.PiecewiseRationalQuadraticCouplingTransform(mask, C.resnet(ctxdim), num_bins=3, tails="linear", tail_bound=2.5),
                                      T.LULinear(f, identity_init=False),
                                      T.AffineCouplingTransform([0, 1, 0][:f], C.resnet(ctxdim))])
    elif tr == "coupling_uncond":
        # spline couplings that also transform their identity features (apply_unconditional_transform=True), linear tails
        if f == 1:
            t = T.PiecewiseQuadraticCDF([1], num_bins=3, tails="linear", tail_bound=2.5)
        else:
            t = T.CompositeTransform([T.PiecewiseRationalQuadraticCouplingTransform([1, 0, 1][:f], C.resnet(ctxdim), num_bins=3, tails="linear", tail_bound=2.5, apply_unconditional_transform=True),
                                      T.PiecewiseQuadraticCouplingTransform([0, 1, 0][:f], C.resnet(ctxdim), num_bins=3, tails="linear", tail_bound=2.5, apply_unconditional_transform=True)])
    elif tr == "lu_cached_sigmoid":
        # a cached linear layer followed by sigmoid_T1 and logit_T2 (together x -> (T1/T2) x, through (0,1)): non-default temperatures,
        # the cache of the linear family used in both directions (flows are evaluated in eval mode)
        t = T.CompositeTransform([T.LULinear(f, identity_init=False, using_cache=True), T.Sigmoid(temperature=1.5), T.Logit(temperature=0.7)])
    elif tr == "lu_leaky":
        t = T.CompositeTransform([T.LULinear(f, identity_init=False), T.LeakyReLU(0.3), T.PointwiseAffineTransform(shift=0.3, scale=1.7)])
    elif tr == "inverse_ar":
        t = T.InverseTransform(T.MaskedAffineAutoregressiveTransform(f, 5, context_features=ctxdim, num_blocks=1))
    else:
        raise ValueError(tr)
    b = c["base"]
    if b == "standard":
        base = D.StandardNormal([f])
    elif b == "conditional":
        base = D.ConditionalDiagonalNormal([f], context_encoder=LinEnc(ctxdim, 2 * f))
    elif b == "diag":
        base = D.DiagonalNormal([f])
    elif b == "mog":
        base = D.MADEMoG(features=f, hidden_features=4, context_features=ctxdim, num_blocks=1, num_mixture_components=1)
    return FL.Flow(t, base, embedding_net=emb)


def _flow_valid(c):
    if c["base"] == "conditional" and c["context"] is None:
        return False
    return True


reg(DSubject("Flow", {"transform": ["ar_affine", "coupling_rq", "lu_leaky", "inverse_ar", "coupling_uncond", "lu_cached_sigmoid"], "features": [2, 1, 3], "base": ["standard", "conditional", "diag", "mog"], "context": ["raw", None, "embedded", "embedded_mlp"]},
             _flow, lambda c: (c["features"],), ctx_shape=lambda c: None if c["context"] is None else ((2,) if c["context"] == "raw" else (3,)), is_flow=True, valid=_flow_valid))


def _bn_stats(obj, cfg):
    k = 0
    for m in obj.modules():
        if isinstance(m, T.BatchNorm):
            f = m.running_mean.numel()
            with torch.no_grad():
                m.running_mean.copy_(pat_tensor((f,), 2 + k, 0.5, dtype=torch.float32))
                m.running_var.copy_(pat_tensor((f,), 3 + k, 0.3, dtype=torch.float32) + 0.9)
            k += 1
        if isinstance(m, (nn.BatchNorm1d, nn.BatchNorm2d)):
            f = m.running_mean.numel()
            with torch.no_grad():
                m.running_mean.copy_(pat_tensor((f,), 2 + k, 0.5, dtype=torch.float32))
                m.running_var.copy_(pat_tensor((f,), 3 + k, 0.3, dtype=torch.float32) + 0.9)
            k += 1


def _image_flow(c):
    """a flow on image-shaped data whose transform changes the event shape (squeeze 1x4x4 -> 4x2x2) before a normal on the squeezed shape"""
    t = T.CompositeTransform([T.PointwiseAffineTransform(shift=0.2, scale=1.5), T.SqueezeTransform(), T.ActNorm(4)])
    emb = None if c["context"] != "embedded" else Emb(3, 2)
    return FL.Flow(t, D.StandardNormal([4, 2, 2]), embedding_net=emb)


def _image_flow_post(obj, cfg):
    for m in obj.modules():
        if isinstance(m, T.ActNorm):
            with torch.no_grad():
                m.initialized.fill_(True)  # (data-dependent initialisation is C14's subject; here the layer carries its pattern parameters)


reg(DSubject("ImageFlow", {"context": ["raw", None, "embedded"]}, _image_flow, lambda c: (1, 4, 4), ctx_shape=lambda c: None if c["context"] is None else ((2,) if c["context"] == "raw" else (3,)),
             is_flow=True, post=_image_flow_post))
reg(DSubject("MaskedAutoregressiveFlow", {"features": [2, 1, 3], "layers": [2, 1], "blocks": [1, 0], "residual": [True, False], "random": ["none", "masks", "perms"], "bn_within": [False, True], "bn_between": [False, True]},
             lambda c: FL.MaskedAutoregressiveFlow(c["features"], 5, c["layers"], c["blocks"], use_residual_blocks=c["residual"], use_random_masks=c["random"] == "masks",
                                                   use_random_permutations=c["random"] == "perms", batch_norm_within_layers=c["bn_within"], batch_norm_between_layers=c["bn_between"]),
             lambda c: (c["features"],), is_flow=True, valid=lambda c: not (c["residual"] and c["random"] == "masks"), post=_bn_stats))
reg(DSubject("SimpleRealNVP", {"features": [3, 2, 4], "layers": [2, 1, 3], "blocks": [1, 2], "volume_preserving": [False, True], "bn_within": [False, True], "bn_between": [False, True]},
             lambda c: FL.SimpleRealNVP(c["features"], 4, c["layers"], c["blocks"], use_volume_preserving=c["volume_preserving"], batch_norm_within_layers=c["bn_within"],
                                        batch_norm_between_layers=c["bn_between"]),
             lambda c: (c["features"],), is_flow=True, post=_bn_stats))

# ---- torch.distributions-style priors (different API: log_prob(value), sample(shape))
reg(DSubject("BoxUniform", {"dims": [2, 1, 3], "box": [[-1.0, 2.0], [0.0, 1.0]]}, lambda c: U.BoxUniform(low=c["box"][0] * torch.ones(c["dims"], dtype=torch.float64), high=c["box"][1] * torch.ones(c["dims"], dtype=torch.float64)),
             lambda c: (c["dims"],), patterns=("init",), takes_context=False, torch_tensor_api=False))
reg(DSubject("MG1Uniform", {"box": [[0.0, 10.0], [1.0, 2.0]]}, lambda c: U.MG1Uniform(low=c["box"][0] * torch.ones(3), high=c["box"][1] * torch.ones(3)), (3,), patterns=("init",),
             takes_context=False, torch_tensor_api=False))
reg(DSubject("LotkaVolterraOscillating", {}, lambda c: U.LotkaVolterraOscillating(), (4,), patterns=("init",), takes_context=False, torch_tensor_api=False))
