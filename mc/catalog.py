"""Subject catalogue: every transform the library offers, with configuration axes, domains and cells.

A *configuration* is a dict axis -> value (JSON values only, so replay files can rebuild it); the
default configuration takes the first value of every axis; `configs(subject, k)` enumerates all
configurations with at most k deviations from the default (the sequential analogue of preemption
bounding).
"""
import itertools
import math

import numpy as np
import torch
from torch import nn
from torch.nn import functional as F

from nflows import transforms as T
from nflows.nn import nets
from nflows.transforms import splines
from nflows.transforms.base import Transform

from mc.params import fill, pat_tensor

R = (None, None)


class Subject:
    def __init__(self, name, axes, build, shape, ctx=None, domain=None, codomain=None, specials=None, out_specials=None,
                 patterns=("init", "zero", "pat1", "pat3"), inv_tol=0.0, ld_tol=0.0, has_inverse=True, kind="other",
                 knots=None, exact=False, post=None, fwd_tol=0.0, smooth=True, margin=0.0, out_margin=0.0, out_shape=None):
        self.name = name
        self.axes = axes  # dict axis -> list of values, first = default
        self._build = build
        self._shape = shape
        self._ctx = ctx
        self._domain = domain
        self._codomain = codomain
        self._specials = specials
        self._out_specials = out_specials
        self.patterns = patterns
        self.inv_tol = inv_tol  # declared approximation constant of the inverse (absolute, in input units)
        self.ld_tol = ld_tol  # declared approximation of the log-det
        self.fwd_tol = fwd_tol
        self.has_inverse = has_inverse
        self.kind = kind
        self._knots = knots
        self.exact = exact
        self._post = post
        self.smooth = smooth
        self.margin = margin  # declared clamp / pole region next to the end-points of an open domain (excluded from numeric oracles)
        self.out_margin = out_margin
        self._out_shape = out_shape

    def default(self):
        return {a: v[0] for a, v in self.axes.items()}

    def build(self, cfg):
        m = self._build(cfg)
        return m

    def post(self, m, cfg, pattern):
        """state that is not a Parameter (running statistics ...) gets non-trivial values"""
        if self._post:
            self._post(m, cfg, pattern)

    def shape(self, cfg):
        return tuple(self._shape(cfg) if callable(self._shape) else self._shape)

    def out_shape(self, cfg):
        if self._out_shape is None:
            return self.shape(cfg)
        return tuple(self._out_shape(cfg))

    def ctx_shape(self, cfg):
        if self._ctx is None:
            return None
        r = self._ctx(cfg) if callable(self._ctx) else self._ctx
        return tuple(r) if r is not None else None

    def domain(self, cfg):
        d = self._domain(cfg) if callable(self._domain) else self._domain
        return d or R

    def cell_domain(self, cfg):
        lo, hi = self.domain(cfg)
        return (None if lo is None else lo + self.margin, None if hi is None else hi - self.margin)

    def moderate_domain(self, cfg):
        """input range of 'moderate magnitude' for precision-sensitive oracles (float32 twin, finite-difference gradients):
        beyond |T x| = 4 the sigmoid/logit pair is ill-conditioned (1/(1-sigmoid) > 55) and rounding noise dominates"""
        if self.name in ("Sigmoid", "CompositeCDFTransform"):
            t = float(cfg.get("temperature", 1))
            return (-4.0 / t, 4.0 / t)
        return self.cell_domain(cfg)

    def cell_codomain(self, cfg):
        lo, hi = self.codomain(cfg)
        return (None if lo is None else lo + self.out_margin, None if hi is None else hi - self.out_margin)

    def codomain(self, cfg):
        d = self._codomain(cfg) if callable(self._codomain) else self._codomain
        return d or R

    def specials(self, cfg):
        s = self._specials(cfg) if callable(self._specials) else self._specials
        return list(s or [])

    def out_specials(self, cfg):
        s = self._out_specials(cfg) if callable(self._out_specials) else self._out_specials
        return list(s or [])

    def knots(self, m, cfg, pattern):
        """input-side knots (only used to *place* inputs); None if unknown"""
        if self._knots:
            return self._knots(m, cfg, pattern)
        return None


def configs(subject, k):
    """all configurations with <= k deviations from the default, simplest first"""
    base = subject.default()
    axes = list(subject.axes)
    out = [dict(base)]
    for nd in range(1, k + 1):
        for combo in itertools.combinations(axes, nd):
            alts = [subject.axes[a][1:] for a in combo]
            for vals in itertools.product(*alts):
                c = dict(base)
                for a, v in zip(combo, vals):
                    c[a] = v
                out.append(c)
    return out


PATTERNS = {"init": ("init",), "zero": ("zero",), "pat1": ("pat", 0, 1.0), "pat3": ("pat", 1, 3.0), "patB": ("pat", 1, 0.5), "patS": ("pat", 0, 0.05)}
COND_PATTERNS = ("init", "zero", "pat1", "patB")  # conditioner-based subjects: scale-3 weights saturate every softmax


def pattern_for(name, seed):
    p = PATTERNS[name]
    if p[0] == "pat":
        return ("pat", p[1] + 2 * (seed % 3), p[2])
    return p


AS_BUILT = [False]  # C13 sets this to also exercise objects whose buffers are exactly as constructed (e.g. BatchNorm running statistics of zero)


def materialise(subject, cfg, pname, seed, dtype=torch.float64, train=False):
    """Build the real object for (subject, cfg, pattern). Construction randomness is owned: manual_seed."""
    with torch.random.fork_rng():
        torch.manual_seed(1000 + seed)
        m = subject.build(cfg)
    pat = pattern_for(pname, seed)
    fill(m, pat)
    if not (AS_BUILT[0] and pname == "init"):
        subject.post(m, cfg, pat)
    if pat[0] in ("pat", "init") and subject.kind in ("coupling-spline", "ar-spline", "coupling", "ar"):
        cap_conditioner(subject, cfg, m)  # (a no-op unless some conditioner output exceeds the cap on the probe inputs)
    if dtype == torch.float64:
        m = m.double()
    m.train(train)
    return m


def cap_conditioner(subject, cfg, m, cap=4.0):
    """Bounded parameter box for conditioner-based subjects: rescale the conditioner's last layer so that its outputs
    (softmax logits, unconstrained derivatives/scales) stay within [-cap, cap] on the whole input alphabet (incl. the far
    tails). With O(1) weights in every layer the logits otherwise differ by hundreds, bin masses underflow to exactly 0
    and neither direction is a bijection any more -- outside the 'moderate magnitude' scope of the properties."""
    net = getattr(m, "transform_net", None) or getattr(m, "autoregressive_net", None)
    if net is None:
        return
    last = getattr(net, "final_layer", None)
    if last is None and hasattr(net, "net"):
        last = getattr(net.net, "_output_layer", None)
    if last is None:
        return
    lo, hi = subject.domain(cfg)
    if lo is None:
        L = 1.4 * float(cfg["tb"]) if cfg.get("tb") else 6.0
        vals = [-L, -1.0, -0.3, 0.4, 1.0, L]
    else:
        vals = [lo, lo + 0.25 * (hi - lo), lo + 0.6 * (hi - lo), hi]
    shape = subject.shape(cfg)
    rows = []
    for i, v in enumerate(vals):
        r = torch.full(shape, float(v))
        flat = r.reshape(-1)
        flat[i % flat.numel()] = float(vals[(i + 2) % len(vals)])
        rows.append(r)
    x = torch.stack(rows)
    if hasattr(m, "identity_features"):
        x = x[:, m.identity_features, ...]
    cs = subject.ctx_shape(cfg)
    ctx = None if cs is None else torch.stack([pat_tensor(cs, 5 + k % 3, 0.7, dtype=torch.float32) for k in range(len(rows))])
    was = net.training
    net.eval()
    # the probe pass runs under its own fixed RNG state: if the tree under test draws random numbers in evaluation mode the
    # scale chosen here (and with it every later result) must not depend on what ran before in this process
    with torch.no_grad(), torch.random.fork_rng():
        torch.manual_seed(20240901)
        out = net(x, ctx) if ctx is not None else net(x)
        if out.numel() == 0:
            net.train(was)
            return
        M = float(out.abs().max())
        if M > cap and M == M:
            last.weight.mul_(cap / M)
            if last.bias is not None:
                last.bias.mul_(cap / M)
    net.train(was)


# ----------------------------------------------------------------------------- conditioners


def resnet(ctx, act="relu", hidden=4, blocks=1, bn=False, dropout=0.0):
    a = {"relu": F.relu, "tanh": torch.tanh}[act]
    return lambda i, o: nets.ResidualNet(i, o, hidden_features=hidden, context_features=ctx, num_blocks=blocks, activation=a, use_batch_norm=bn, dropout_probability=dropout)


def convnet(ctx, act="relu", hidden=4, blocks=1, bn=False, dropout=0.0):
    a = {"relu": F.relu, "tanh": torch.tanh}[act]
    return lambda i, o: nets.ConvResidualNet(i, o, hidden_channels=hidden, context_channels=ctx, num_blocks=blocks, activation=a, use_batch_norm=bn, dropout_probability=dropout)


class MLPCond(nn.Module):
    """MLP-like conditioner without `hidden_features` attribute (the branch that skips the 1/sqrt(h) scaling)"""

    def __init__(self, i, o, ctx):
        super().__init__()
        self.ctx = ctx
        self.net = nets.MLP([i + (ctx or 0)], [o], [5, 4, 3], activation=torch.tanh)  # several hidden layers (a ModuleList inside MLP)

    def forward(self, x, context=None):
        if context is not None:
            x = torch.cat([x, context], dim=1)
        return self.net(x)


def cond_fn(cfg):
    ctx = 2 if cfg.get("context") else None
    if cfg.get("dims", "2d").startswith("4d"):
        return convnet(ctx, cfg.get("act", "relu"), bn=cfg["dims"] == "4d_bn", dropout=0.5 if cfg["dims"] == "4d_do" else 0.0)
    if cfg.get("net", "resnet") == "mlp":
        return lambda i, o: MLPCond(i, o, ctx)
    return resnet(ctx, cfg.get("act", "relu"), bn=cfg.get("net") == "resnet_bn", dropout=0.5 if cfg.get("net") == "resnet_do" else 0.0)


# ----------------------------------------------------------------------------- spline-function adapters


class SplineFn(Transform):
    """Adapter exposing the bare spline *functions* (with arbitrary boxes) as a Transform; the
    parameters live in nn.Parameters so the pattern machinery applies. Elementwise over [B, D]."""

    def __init__(self, family, bins, box, D=2, tails=None, tail_bound=1.0, extra=None):
        super().__init__()
        self.family, self.bins, self.box, self.tails, self.tail_bound = family, bins, box, tails, tail_bound
        self.extra = dict(extra or {})
        K = bins
        if family == "linear":
            self.p0 = nn.Parameter(torch.randn(D, K))
        elif family == "quadratic":
            self.p0 = nn.Parameter(torch.randn(D, K))
            self.p1 = nn.Parameter(torch.randn(D, K - 1 if tails else K + 1))
        elif family == "cubic":
            self.p0 = nn.Parameter(torch.randn(D, K))
            self.p1 = nn.Parameter(torch.randn(D, K))
            self.p2 = nn.Parameter(torch.randn(D, 1))
            self.p3 = nn.Parameter(torch.randn(D, 1))
        elif family == "rq":
            self.p0 = nn.Parameter(torch.randn(D, K))
            self.p1 = nn.Parameter(torch.randn(D, K))
            self.p2 = nn.Parameter(torch.randn(D, K - 1 if tails else K + 1))

    def _call(self, x, inverse):
        B = x.shape[0]
        e = lambda p: p[None].expand(B, *p.shape)
        kw = {}
        if self.tails:
            kw = dict(tails=self.tails, tail_bound=self.tail_bound)
        else:
            l, r, b, t = self.box
            kw = dict(left=l, right=r, bottom=b, top=t)
        if self.family != "linear":
            kw.update(self.extra)
        f = self.family
        if f == "linear":
            fn = splines.unconstrained_linear_spline if self.tails else splines.linear_spline
            y, ld = fn(x, e(self.p0), inverse=inverse, **kw)
        elif f == "quadratic":
            fn = splines.unconstrained_quadratic_spline if self.tails else splines.quadratic_spline
            y, ld = fn(x, e(self.p0), e(self.p1), inverse=inverse, **kw)
        elif f == "cubic":
            fn = splines.unconstrained_cubic_spline if self.tails else splines.cubic_spline
            y, ld = fn(x, e(self.p0), e(self.p1), e(self.p2), e(self.p3), inverse=inverse, **kw)
        else:
            fn = splines.unconstrained_rational_quadratic_spline if self.tails else splines.rational_quadratic_spline
            y, ld = fn(x, e(self.p0), e(self.p1), e(self.p2), inverse=inverse, **kw)
        return y, ld.sum(-1)

    def forward(self, x, context=None):
        return self._call(x, False)

    def inverse(self, x, context=None):
        return self._call(x, True)


def _tails(c):
    return "linear" if c.get("tb") else None


def _tb(c):
    return float(c["tb"]) if c.get("tb") else 1.0


BOXES = {"unit": (0.0, 1.0, 0.0, 1.0), "nonsquare": (-1.0, 4.0, 1.0, 3.0), "shifted": (2.0, 3.0, -5.0, -1.0)}


def ref_knots_from_widths(uw, lo, hi, min_w=1e-3):
    """softmax + min-width formula (reference, only for input placement)"""
    uw = np.asarray(uw, dtype=np.float64)
    K = uw.shape[-1]
    e = np.exp(uw - uw.max(-1, keepdims=True))
    w = e / e.sum(-1, keepdims=True)
    w = min_w + (1 - min_w * K) * w
    cw = np.concatenate([np.zeros(uw.shape[:-1] + (1,)), np.cumsum(w, -1)], -1)
    cw[..., -1] = 1.0
    return lo + (hi - lo) * cw


def spline_knots(widths_attr, uniform=False):
    def f(m, cfg, pattern):
        if cfg.get("tb"):
            tb = float(cfg["tb"])
            lo, hi = -tb, tb
        else:
            lo, hi = cfg_box(cfg)[0:2]
        K = cfg["bins"]
        if uniform:
            k = lo + (hi - lo) * np.arange(K + 1) / K
            return k  # same for every coordinate
        p = getattr(m, widths_attr).detach().double().numpy()
        return ref_knots_from_widths(p.reshape(-1, K), lo, hi, min_w=MINS.get(cfg.get("mins", "default"), {}).get("min_bin_width", 1e-3))  # [D, K+1]

    return f


def cfg_box(cfg):
    return BOXES[cfg.get("box", "unit")]


# ----------------------------------------------------------------------------- subject definitions

SUBJECTS = {}


def reg(s):
    SUBJECTS[s.name] = s
    return s


def _shape_ew(cfg):
    return {"2d": (3,), "4d": (2, 1, 2), "1": (1,), "0": ()}[cfg.get("shape", "2d")]  # "0": scalar events, inputs of shape [batch]


EW_SHAPES = ["2d", "4d", "1", "0"]

reg(Subject("IdentityTransform", {"shape": EW_SHAPES}, lambda c: T.IdentityTransform(), _shape_ew, patterns=("init",), kind="elementwise", exact=True))


def _pw_affine(c):
    v = c["variant"]
    if v == "scalar":
        return T.PointwiseAffineTransform(shift=-1.7, scale=0.3)
    if v == "negscalar":
        return T.PointwiseAffineTransform(shift=0.5, scale=-2.0)
    if v == "vector":
        return T.PointwiseAffineTransform(shift=torch.tensor([0.1, -0.2, 0.3]), scale=torch.tensor([0.5, -1.5, 2.0]))
    if v == "channel":
        return T.PointwiseAffineTransform(shift=torch.tensor([0.1, -0.2]).view(2, 1, 1), scale=torch.tensor([0.5, -1.5]).view(2, 1, 1))
    if v == "full4d":
        return T.PointwiseAffineTransform(shift=pat_tensor((2, 1, 2), 2, 1.0, dtype=torch.float32), scale=pat_tensor((2, 1, 2), 3, 1.0, dtype=torch.float32) + 1.5)
    if v == "alias":
        return T.AffineScalarTransform(shift=0.25, scale=4.0)
    if v == "alias_none":
        return T.AffineTransform(shift=None, scale=2.0)
    raise ValueError(v)


reg(Subject("PointwiseAffineTransform", {"variant": ["scalar", "negscalar", "vector", "channel", "full4d", "alias", "alias_none"], "shape": ["2d", "4d"]},
            _pw_affine, lambda c: (2, 1, 2) if c["variant"] in ("channel", "full4d") or c["shape"] == "4d" and c["variant"] != "vector" else (3,),
            patterns=("init",), kind="elementwise"))

PERMS3 = [[1, 2, 0], [0, 1, 2], [0, 2, 1], [1, 0, 2], [2, 0, 1], [2, 1, 0]]


def _perm(c):
    k = c["kind"]
    if k == "reverse":
        return T.ReversePermutation(3 if c["dim"] == 1 else 2, dim=c["dim"])
    if k == "random":
        return T.RandomPermutation(3 if c["dim"] == 1 else 2, dim=c["dim"])
    p = PERMS3[int(k)]
    if c["dim"] != 1:
        p = [1, 0]
    return T.Permutation(torch.tensor(p), dim=c["dim"])


reg(Subject("Permutation", {"kind": ["0", "1", "2", "3", "4", "5", "reverse", "random"], "dim": [1, 2, 3]},
            _perm, lambda c: {1: (3,), 2: (1, 2, 2), 3: (2, 1, 2)}[c["dim"]],
            patterns=("init",), kind="perm", exact=True))

reg(Subject("SqueezeTransform", {"factor": [2, 3], "c": [1, 2], "mult": [1, 2]}, lambda c: T.SqueezeTransform(c["factor"]),
            lambda c: (c["c"], c["factor"] * c["mult"], c["factor"]), patterns=("init",), kind="perm", exact=True,
            out_shape=lambda c: (c["c"] * c["factor"] ** 2, c["mult"], 1)))


def _lin(cls):
    def b(c):
        f, cache = c["features"], c.get("cache", False)
        if cls == "NaiveLinear":
            return T.NaiveLinear(f, orthogonal_initialization=c["orth"], using_cache=cache)
        if cls == "LULinear":
            return T.LULinear(f, using_cache=cache, identity_init=c["identity_init"])
        if cls == "QRLinear":
            return T.QRLinear(f, num_householder=c["householder"], using_cache=cache)
        if cls == "SVDLinear":
            return T.SVDLinear(f, num_householder=c["householder"], using_cache=cache, identity_init=c["identity_init"])
        if cls == "HouseholderSequence":
            return T.HouseholderSequence(f, num_transforms=c["householder"])
    return b


def _naive_post(m, cfg, pattern):
    if pattern[0] == "pat":
        with torch.no_grad():
            m._weight.add_(2.0 * torch.eye(cfg["features"]))


reg(Subject("NaiveLinear", {"features": [3, 1, 2, 4], "orth": [False, True], "cache": [False, True]}, _lin("NaiveLinear"), lambda c: (c["features"],),
            patterns=("init", "pat1", "pat3"), kind="linear", post=_naive_post))
reg(Subject("LULinear", {"features": [3, 1, 2, 4], "identity_init": [True, False], "cache": [False, True]}, _lin("LULinear"), lambda c: (c["features"],), kind="linear"))
reg(Subject("QRLinear", {"features": [3, 1, 2, 4], "householder": [2, 1, 3, 4], "cache": [False, True]}, _lin("QRLinear"), lambda c: (c["features"],),
            patterns=("init", "pat1", "pat3"), kind="linear"))
reg(Subject("SVDLinear", {"features": [3, 1, 2, 4], "householder": [2, 4], "identity_init": [True, False], "cache": [False, True]}, _lin("SVDLinear"), lambda c: (c["features"],),
            patterns=("init", "pat1", "pat3"), kind="linear"))
reg(Subject("HouseholderSequence", {"features": [3, 1, 2, 4], "householder": [2, 1, 3, 4]}, _lin("HouseholderSequence"), lambda c: (c["features"],),
            patterns=("init", "pat1", "pat3"), kind="linear"))
reg(Subject("OneByOneConvolution", {"channels": [2, 3], "hw": [[2, 2], [1, 3]], "identity_init": [True, False], "cache": [False, True]},
            lambda c: T.OneByOneConvolution(c["channels"], using_cache=c["cache"], identity_init=c["identity_init"]),
            lambda c: (c["channels"], c["hw"][0], c["hw"][1]), kind="linear"))


def _bn_post(m, cfg, pattern):
    f = cfg["features"]
    with torch.no_grad():
        m.running_mean.copy_(pat_tensor((f,), 2, 0.8, dtype=torch.float32))
        m.running_var.copy_(pat_tensor((f,), 3, 0.4, dtype=torch.float32) + 0.9)


reg(Subject("BatchNorm", {"features": [3, 1], "eps": [1e-5, 1e-2], "momentum": [0.1, 0.5], "affine": [True, False]}, lambda c: T.BatchNorm(c["features"], eps=c["eps"], momentum=c["momentum"], affine=c["affine"]),
            lambda c: (c["features"],), kind="elementwise", post=_bn_post))
reg(Subject("ActNorm", {"dims": ["2d", "4d"], "features": [2, 3, 1], "hw": [[2, 1], [1, 3]]}, lambda c: T.ActNorm(c["features"]),
            lambda c: (c["features"],) if c["dims"] == "2d" else (c["features"], c["hw"][0], c["hw"][1]), kind="elementwise"))

reg(Subject("Exp", {"shape": EW_SHAPES}, lambda c: T.Exp(), _shape_ew, patterns=("init",), codomain=(0.0, None), kind="elementwise", out_specials=[1.0], out_margin=1e-6))
reg(Subject("Tanh", {"shape": EW_SHAPES}, lambda c: T.Tanh(), _shape_ew, patterns=("init",), codomain=(-1.0, 1.0), kind="elementwise", out_margin=1e-6))
reg(Subject("LogTanh", {"cut": [1, 0.5, 2.0], "shape": EW_SHAPES}, lambda c: T.LogTanh(cut_point=c["cut"]), _shape_ew, patterns=("init",), kind="elementwise",
            specials=lambda c: [c["cut"], -c["cut"]], out_specials=lambda c: [math.tanh(c["cut"]), -math.tanh(c["cut"])]))
reg(Subject("LeakyReLU", {"slope": [0.01, 0.3, 2.0], "shape": EW_SHAPES}, lambda c: T.LeakyReLU(negative_slope=c["slope"]), _shape_ew, patterns=("init",), kind="elementwise",
            specials=[0.0], out_specials=[0.0], smooth=False))
reg(Subject("Sigmoid", {"temperature": [1, 2.5, 0.2], "learn": [False, True], "shape": EW_SHAPES}, lambda c: T.Sigmoid(temperature=c["temperature"], learn_temperature=c["learn"]),
            _shape_ew, patterns=("init",), codomain=(0.0, 1.0), kind="elementwise", out_margin=1e-3,
            domain=lambda c: (-12.0 / c["temperature"], 12.0 / c["temperature"])))  # beyond: declared clamp eps=1e-6 of the inverse
reg(Subject("Logit", {"temperature": [1, 2.5], "shape": EW_SHAPES}, lambda c: T.Logit(temperature=c["temperature"]), _shape_ew, patterns=("init",), domain=(0.0, 1.0), kind="elementwise", margin=1e-3,
            codomain=lambda c: (-12.0 / c["temperature"], 12.0 / c["temperature"])))
reg(Subject("CauchyCDF", {"shape": EW_SHAPES}, lambda c: T.nonlinearities.CauchyCDF(), _shape_ew, patterns=("init",), codomain=(0.0, 1.0), kind="elementwise", out_margin=1e-3))
reg(Subject("CauchyCDFInverse", {"shape": EW_SHAPES}, lambda c: T.nonlinearities.CauchyCDFInverse(), _shape_ew, patterns=("init",), domain=(0.0, 1.0), kind="elementwise", margin=1e-2))
reg(Subject("GatedLinearUnit", {"features": [1, 2, 3]}, lambda c: T.GatedLinearUnit(), lambda c: (c["features"],), ctx=lambda c: (1,), patterns=("init",), kind="elementwise"))


MINS = {"default": {}, "tall": {"min_bin_height": 5e-2}, "wide": {"min_bin_width": 5e-2}, "steep": {"min_derivative": 5e-2}}


def _mins_kw(c, fam):
    """non-default minimum bin width / height / derivative (constructor arguments of the quadratic, cubic and RQ classes)"""
    kw = dict(MINS[c.get("mins", "default")])
    if fam != "rq":
        kw.pop("min_derivative", None)
    if fam == "linear":
        kw = {}
    return kw


def _cdf(cls, fam):
    def b(c):
        shape = list(_cdf_shape(c))
        kw = dict(shape=shape, num_bins=c["bins"], tails=_tails(c), tail_bound=_tb(c))
        kw.update(_mins_kw(c, fam))
        return getattr(T, cls)(**kw)
    return b


def _cdf_shape(c):
    return {"2d": (2,), "4d": (2, 1, 2), "1": (1,)}[c.get("shape", "2d")]


def _cdf_domain(c):
    return R if c["tb"] else (0.0, 1.0)


def _cdf_specials(c):
    if c["tb"]:
        tb = float(c["tb"])
        return [tb, -tb]
    return []


CDF_AXES = {"bins": [3, 1, 2, 5], "tb": [None, 1.0, 2.5, 32.0, 1.7], "shape": ["2d", "4d", "1"]}
DECL = {"linear": 2e-6, "quadratic": 2e-6, "cubic": 2e-5, "rq": 2e-6}  # searchsorted eps=1e-6 / cubic eps=1e-5 (as fractions of the box)

reg(Subject("PiecewiseLinearCDF", dict(CDF_AXES), _cdf("PiecewiseLinearCDF", "linear"), _cdf_shape, domain=_cdf_domain, codomain=_cdf_domain, specials=_cdf_specials, out_specials=_cdf_specials,
            kind="spline", knots=spline_knots(None, uniform=True), smooth=False))
reg(Subject("PiecewiseQuadraticCDF", dict(CDF_AXES, bins=[3, 2, 5], mins=["default", "tall", "wide"]), _cdf("PiecewiseQuadraticCDF", "quadratic"), _cdf_shape, domain=_cdf_domain, codomain=_cdf_domain, specials=_cdf_specials, out_specials=_cdf_specials,
            kind="spline", knots=spline_knots("unnormalized_widths")))
reg(Subject("PiecewiseCubicCDF", dict(CDF_AXES, mins=["default", "tall", "wide"]), _cdf("PiecewiseCubicCDF", "cubic"), _cdf_shape, domain=_cdf_domain, codomain=_cdf_domain, specials=_cdf_specials, out_specials=_cdf_specials,
            kind="spline", knots=spline_knots("unnormalized_widths")))
reg(Subject("PiecewiseRationalQuadraticCDF", dict(CDF_AXES, identity_init=[False, True], mins=["default", "tall", "wide", "steep"]),
            lambda c: T.PiecewiseRationalQuadraticCDF(shape=list(_cdf_shape(c)), num_bins=c["bins"], tails=_tails(c), tail_bound=_tb(c), identity_init=c["identity_init"], **_mins_kw(c, "rq")),
            _cdf_shape, domain=_cdf_domain, codomain=_cdf_domain, specials=_cdf_specials, out_specials=_cdf_specials, kind="spline", knots=spline_knots("unnormalized_widths")))


def _splinefn(fam):
    def b(c):
        extra = _mins_kw(c, fam)
        if fam == "rq" and c.get("identity_flag"):
            extra["enable_identity_init"] = True
        return SplineFn(fam, c["bins"], cfg_box(c), D=2, tails=_tails(c), tail_bound=_tb(c), extra=extra)
    return b


def _fn_domain(c):
    return R if c["tb"] else cfg_box(c)[0:2]


def _fn_codomain(c):
    return R if c["tb"] else cfg_box(c)[2:4]


for fam in ("linear", "quadratic", "cubic", "rq"):
    reg(Subject("splinefn_" + fam, dict({"box": ["nonsquare", "unit", "shifted"], "bins": [3, 1, 2, 5] if fam != "quadratic" else [3, 2, 5], "tb": [None, 1.0, 2.5, 32.0, 1.7]},
                                          **({} if fam == "linear" else {"mins": ["default", "tall", "wide"] + (["steep"] if fam == "rq" else [])}), **({"identity_flag": [False, True]} if fam == "rq" else {})),
                _splinefn(fam), (2,), domain=_fn_domain, codomain=_fn_codomain, specials=_cdf_specials, out_specials=_cdf_specials, kind="spline",
                knots=spline_knots("p0", uniform=(fam == "linear")), smooth=(fam != "linear")))

reg(Subject("CompositeCDFTransform", {"bins": [3, 1, 5], "temperature": [1, 2.5]},
            lambda c: T.CompositeCDFTransform(T.Sigmoid(temperature=c["temperature"]), T.PiecewiseRationalQuadraticCDF(shape=[2], num_bins=c["bins"])), (2,), kind="spline",
            domain=lambda c: (-12.0 / c["temperature"], 12.0 / c["temperature"]), codomain=lambda c: (-12.0 / c["temperature"], 12.0 / c["temperature"])))

# --- couplings
MASKS = {2: [[1, 0], [0, 1]], 3: [[1, 0, 1], [0, 1, 0], [0, 0, 1], [1, 1, 0]]}


def _coupling(cls):
    def b(c):
        mask = c["mask"]
        kw = {}
        if cls in ("AffineCouplingTransform", "AdditiveCouplingTransform"):
            if cls == "AffineCouplingTransform" and c.get("scale_act") == "general":
                kw["scale_activation"] = T.AffineCouplingTransform.GENERAL_SCALE_ACTIVATION
            return getattr(T, cls)(mask, cond_fn(c), **kw)
        if cls == "UMNNCouplingTransform":
            return T.UMNNCouplingTransform(mask, cond_fn(c), integrand_net_layers=[6, 6], cond_size=3, nb_steps=c["nb_steps"], solver=c["solver"],
                                           apply_unconditional_transform=c["uncond"])
        img_shape = None
        if c["dims"].startswith("4d"):
            img_shape = list(_coupling_shape(c)[1:])  # (passed for every image input; it only matters when the unconditional transform is on)
        fam = {"PiecewiseLinearCouplingTransform": "linear", "PiecewiseQuadraticCouplingTransform": "quadratic", "PiecewiseCubicCouplingTransform": "cubic",
               "PiecewiseRationalQuadraticCouplingTransform": "rq"}[cls]
        return getattr(T, cls)(mask, cond_fn(c), num_bins=c["bins"], tails=_tails(c), tail_bound=_tb(c), apply_unconditional_transform=c["uncond"], img_shape=img_shape, **_mins_kw(c, fam))
    return b


def _coupling_shape(c):
    f = len(c["mask"])
    return (f,) if c["dims"] == "2d" else (f, 2, 1)


def _coupling_ctx(c):
    if not c.get("context"):
        return None
    return (2,) if c["dims"] == "2d" else (2, 2, 1)


CPL_BASE = {"mask": [[1, 0, 1], [0, 1], [1, 0], [0, 1, 0], [0, 0, 1], [-1.0, 0.5, 2.0], [1, 0, 0], [0, 1, 0, 0]],  # the last two: identity/transformed index lists whose concatenation is a permutation that is not its own inverse
            "dims": ["2d", "4d", "4d_bn", "4d_do"], "context": [False, True], "act": ["relu", "tanh"]}
reg(Subject("AffineCouplingTransform", dict(CPL_BASE, scale_act=["default", "general"], net=["resnet", "mlp", "resnet_bn", "resnet_do"]), _coupling("AffineCouplingTransform"), _coupling_shape, ctx=_coupling_ctx, kind="coupling", patterns=COND_PATTERNS))
reg(Subject("AdditiveCouplingTransform", dict(CPL_BASE, net=["resnet", "mlp", "resnet_do"]), _coupling("AdditiveCouplingTransform"), _coupling_shape, ctx=_coupling_ctx, kind="coupling", patterns=COND_PATTERNS))


def _zero_knots(m, cfg, pattern):
    if pattern[0] != "zero":
        return None
    return spline_knots(None, uniform=True)(m, cfg, pattern)


PW_AXES = dict(CPL_BASE, bins=[3, 1, 2, 5], tb=[None, 1.0, 2.5, 32.0, 1.7], uncond=[False, True], net=["resnet", "mlp", "resnet_do"])
for cls, fam in (("PiecewiseLinearCouplingTransform", "linear"), ("PiecewiseQuadraticCouplingTransform", "quadratic"), ("PiecewiseCubicCouplingTransform", "cubic"),
                 ("PiecewiseRationalQuadraticCouplingTransform", "rq")):
    ax = dict(PW_AXES)
    if fam == "quadratic":
        ax["bins"] = [3, 2, 5]
    if fam != "linear":
        ax["mins"] = ["default", "tall", "wide"] + (["steep"] if fam == "rq" else [])
    reg(Subject(cls, ax, _coupling(cls), _coupling_shape, ctx=_coupling_ctx, domain=_cdf_domain, codomain=_cdf_domain, specials=_cdf_specials, out_specials=_cdf_specials,
                kind="coupling-spline", knots=_zero_knots, smooth=(fam != "linear"), patterns=COND_PATTERNS))


def _umnn_smooth(m):
    """swap the integrand's ReLUs for a smooth activation (configuration (ii) of DESIGN 3)"""
    for mod in m.modules():
        if isinstance(mod, nn.Sequential):
            for i, l in enumerate(mod):
                if isinstance(l, nn.ReLU):
                    mod[i] = nn.Tanh()
    return m


def _umnn_c(c):
    m = _coupling("UMNNCouplingTransform")(c)
    if c["integrand"] == "smooth":
        _umnn_smooth(m)
    return m


reg(Subject("UMNNCouplingTransform", {"integrand": ["smooth", "relu"], "mask": [[1, 0, 1], [0, 1]], "dims": ["2d", "4d"], "context": [False, True], "nb_steps": [60, 20], "solver": ["CCParallel", "CC"],
                                      "uncond": [False, True], "act": ["tanh", "relu"]},
            _umnn_c, _coupling_shape, ctx=_coupling_ctx, kind="umnn", patterns=("init", "pat1"), inv_tol=2e-6, ld_tol=1e-6))

# --- autoregressive


def _ar(cls):
    def b(c):
        a = {"relu": F.relu, "tanh": torch.tanh}[c["act"]]
        kw = dict(features=c["features"], hidden_features=c["hidden"], context_features=2 if c["context"] else None, num_blocks=c["blocks"],
                  use_residual_blocks=c["blocktype"] == "residual", random_mask=c["blocktype"] == "ff_random", activation=a, use_batch_norm=c["bn"], dropout_probability=c.get("dropout", 0.0))
        if cls == "MaskedAffineAutoregressiveTransform":
            return T.MaskedAffineAutoregressiveTransform(**kw)
        if cls == "MaskedUMNNAutoregressiveTransform":
            m = T.MaskedUMNNAutoregressiveTransform(integrand_net_layers=[6, 6], cond_size=3, nb_steps=c["nb_steps"], **kw)
            if c["integrand"] == "smooth":
                _umnn_smooth(m)
            return m
        if cls in ("MaskedPiecewiseLinearAutoregressiveTransform", "MaskedPiecewiseCubicAutoregressiveTransform"):
            return getattr(T, cls)(num_bins=c["bins"], **kw)
        fam = "quadratic" if "Quadratic" in cls and "Rational" not in cls else "rq"
        return getattr(T, cls)(num_bins=c["bins"], tails=_tails(c), tail_bound=_tb(c), **kw, **_mins_kw(c, "rq" if fam == "rq" else "rq"))
    return b


AR_BASE = {"features": [3, 1, 2, 4], "hidden": [5, 2], "context": [False, True], "blocks": [1, 0, 2], "blocktype": ["residual", "ff", "ff_random"], "act": ["relu", "tanh"], "bn": [False, True], "dropout": [0.0, 0.5]}


reg(Subject("MaskedAffineAutoregressiveTransform", dict(AR_BASE), _ar("MaskedAffineAutoregressiveTransform"), lambda c: (c["features"],), ctx=lambda c: (2,) if c["context"] else None, kind="ar", patterns=COND_PATTERNS))
for cls, fam in (("MaskedPiecewiseLinearAutoregressiveTransform", "linear"), ("MaskedPiecewiseCubicAutoregressiveTransform", "cubic")):
    reg(Subject(cls, dict(AR_BASE, bins=[3, 1, 2, 5]), _ar(cls), lambda c: (c["features"],), ctx=lambda c: (2,) if c["context"] else None,
                domain=(0.0, 1.0), codomain=(0.0, 1.0), kind="ar-spline", knots=lambda m, c, p: (np.arange(c["bins"] + 1) / c["bins"]) if p[0] == "zero" else None, smooth=(fam != "linear"), patterns=COND_PATTERNS))
for cls, fam in (("MaskedPiecewiseQuadraticAutoregressiveTransform", "quadratic"), ("MaskedPiecewiseRationalQuadraticAutoregressiveTransform", "rq")):
    reg(Subject(cls, dict(AR_BASE, bins=[3, 2, 5] if fam == "quadratic" else [3, 1, 2, 5], tb=[None, 1.0, 2.5, 32.0, 1.7], mins=["default", "tall", "wide"] + (["steep"] if fam == "rq" else [])), _ar(cls), lambda c: (c["features"],),
                ctx=lambda c: (2,) if c["context"] else None, domain=_cdf_domain, codomain=_cdf_domain, specials=_cdf_specials, out_specials=_cdf_specials, kind="ar-spline", knots=_zero_knots, patterns=COND_PATTERNS))
reg(Subject("MaskedUMNNAutoregressiveTransform", {"integrand": ["smooth", "relu"], "features": [2, 1, 3], "hidden": [4], "context": [False, True], "blocks": [1], "blocktype": ["residual", "ff"],
                                                  "act": ["tanh"], "bn": [False], "nb_steps": [60, 20]},
            _ar("MaskedUMNNAutoregressiveTransform"), lambda c: (c["features"],), ctx=lambda c: (2,) if c["context"] else None, kind="umnn", patterns=("init", "pat1"), inv_tol=2e-6, ld_tol=1e-6))

# --- wrappers


def _wrap(c):
    k = c["kind"]
    a = lambda: T.PointwiseAffineTransform(shift=1.0, scale=2.0)
    b = lambda: T.LeakyReLU(0.2)
    p = lambda: T.ReversePermutation(3)
    m = lambda: T.MaskedAffineAutoregressiveTransform(3, 4, num_blocks=1)
    lu = lambda: T.LULinear(3, identity_init=False)
    if k == "composite2":
        return T.CompositeTransform([m(), p()])
    if k == "composite3":
        return T.CompositeTransform([a(), b(), lu()])
    if k == "inverse":
        return T.InverseTransform(T.CompositeTransform([m(), a()]))
    if k == "nested":
        return T.CompositeTransform([T.InverseTransform(lu()), T.CompositeTransform([b(), m()]), p()])
    if k == "empty":
        return T.CompositeTransform([])
    raise ValueError(k)


reg(Subject("Wrappers", {"kind": ["composite2", "composite3", "inverse", "nested", "empty"]}, _wrap, (3,), kind="wrapper", patterns=("init", "pat1"), specials=[0.0], smooth=False))


def _multiscale(c):
    shape = tuple(c["shape"])
    sd = c["split_dim"]
    n = c["stages"]
    ms = T.MultiscaleCompositeTransform(num_transforms=n, split_dim=sd)
    cur = shape
    for i in range(n):
        if len(cur) == 1:
            t = T.CompositeTransform([T.LULinear(cur[0], identity_init=False), T.LeakyReLU(0.5)])
        else:
            t = T.CompositeTransform([T.ActNorm(cur[0]) if len(cur) == 3 else T.PointwiseAffineTransform(shift=0.5, scale=1.0 + i), T.LeakyReLU(0.5)])
        cur = ms.add_transform(t, cur)
    return ms


reg(Subject("MultiscaleCompositeTransform", {"shape": [[4], [5], [2, 2, 2], [3, 2, 1], [2, 4, 2], [1, 2, 8]], "split_dim": [1, 2, 3], "stages": [2, 1, 3]}, _multiscale, lambda c: tuple(c["shape"]), kind="wrapper",
            patterns=("init", "pat1"), specials=[0.0], smooth=False, out_shape=lambda c: (int(np.prod(c["shape"])),)))


def valid(subject, cfg):
    """configuration legality (constructor-accepted combinations only)"""
    n = subject.name
    if n == "Permutation":
        if cfg["dim"] != 1 and cfg["kind"] in ("2", "3", "4", "5"):
            return False
    if n == "PointwiseAffineTransform":
        if cfg["variant"] == "vector" and cfg["shape"] == "4d":
            return False
    if n == "SVDLinear" and cfg["householder"] % 2:
        return False
    if n in ("QRLinear", "SVDLinear", "HouseholderSequence"):
        # constructor-accepted but defective sizes are C11's subject; here stay within k <= 2F
        if cfg["householder"] > 2 * cfg["features"]:
            return False
    if "mask" in cfg:
        f = len(cfg["mask"])
        if subject.name != "UMNNCouplingTransform" or True:
            pass
    if subject.kind in ("coupling", "coupling-spline", "umnn") and "mask" in cfg:
        if cfg["dims"].startswith("4d") and cfg.get("net") in ("mlp", "resnet_bn", "resnet_do"):
            return False
    if subject.name == "MultiscaleCompositeTransform":
        shape, sd, n_ = cfg["shape"], cfg["split_dim"], cfg["stages"]
        if sd > len(shape):
            return False
        size = shape[sd - 1]
        for _ in range(n_):  # every stage (the last one too) must see >= 2 entries along the split dimension
            if size < 2:
                return False
            size = size // 2
    return True


def enum_configs(subject, k):
    k = max(k, getattr(subject, "min_k", 0))  # small subjects are enumerated completely in every tier
    out = [c for c in configs(subject, k) if valid(subject, c)]
    if k < 2 and "tb" in subject.axes and "mins" in subject.axes:
        # one pair of deviations that is known to interact is always included: linear tails together with each non-default
        # minimum bin size (the tail code path hands the minimum sizes on to the inner spline)
        for mins in subject.axes["mins"][1:]:
            c = dict(subject.default())
            c["tb"], c["mins"] = 2.5, mins
            if valid(subject, c) and c not in out:
                out.append(c)
    return out


SUBJECTS["MultiscaleCompositeTransform"].min_k = 3
