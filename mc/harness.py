"""Helpers shared by the E1 checks: building a case, calling the real transform on flat rows."""
import zlib

import numpy as np
import torch

from mc import catalog as C
from mc.params import pat_tensor


def dev_signature(subject, cfg):
    d = subject.default()
    return ",".join("%s=%s" % (a, _short(cfg[a])) for a in sorted(cfg) if cfg[a] != d.get(a)) or "default"


def _short(v):
    if isinstance(v, list):
        return "[" + " ".join(str(x) for x in v) + "]"
    return str(v)


def context_for(subject, cfg, n, dtype=torch.float64, k=0):
    cs = subject.ctx_shape(cfg)
    if cs is None:
        return None
    row = pat_tensor(cs, 5 + k, 0.7, dtype=dtype)
    return row[None].expand(n, *cs).contiguous()


class Caller:
    """wraps a real module as a map on flat float64 rows [N, D] (numpy)"""

    def __init__(self, subject, cfg, module, dtype=torch.float64, ctx_k=0):
        self.s, self.cfg, self.m, self.dtype = subject, cfg, module, dtype
        self.shape = subject.shape(cfg)
        self.D = int(np.prod(self.shape))
        self.ctx_k = ctx_k
        self.calls = 0

    def _run(self, fn, X, shape=None, inverse=False):
        x = torch.as_tensor(np.asarray(X), dtype=self.dtype).reshape(-1, *(shape or self.shape))
        ctx = context_for(self.s, self.cfg, x.shape[0], self.dtype, self.ctx_k)
        self.calls += 1
        # the global RNG is owned by the harness: its state before a call is a function of the call itself (direction and input
        # bits), so a tree that draws random numbers during evaluation still replays identically -- and gets different draws in
        # the two directions
        torch.manual_seed(zlib.crc32(x.detach().contiguous().numpy().tobytes()) ^ (0x5A5A if inverse else 0))
        with torch.no_grad():
            y, ld = fn(x, ctx) if ctx is not None else fn(x)
        if ld.dim() == 0:
            ld = ld.expand(x.shape[0])  # (one value per row is C12's / C20's clause; the numeric oracles here look at single rows)
        return y, ld

    def fwd(self, X):
        y, ld = self._run(self.m.forward, X)
        return y.reshape(y.shape[0], -1).double().numpy(), ld.double().numpy(), (y, ld)

    def inv(self, X):
        y, ld = self._run(self.m.inverse, X, self.s.out_shape(self.cfg), inverse=True)
        return y.reshape(y.shape[0], -1).double().numpy(), ld.double().numpy(), (y, ld)


def build_case(sname, cfg, pname, seed, dtype=torch.float64, train=False):
    s = C.SUBJECTS[sname]
    m = C.materialise(s, cfg, pname, seed, dtype=dtype, train=train)
    return s, m


def knots_for(s, m, cfg, pname, seed):
    try:
        return s.knots(m, cfg, C.pattern_for(pname, seed))
    except Exception:
        return None
