"""python3-vt tools/validate.py : validate MANIFEST.json and evidence/*.json against the schemas"""
import json, glob, sys, jsonschema
ok = True
ms = json.load(open('/root/.vp/MANIFEST.schema.json')); es = json.load(open('/root/.vp/EVIDENCE.schema.json'))
try:
    jsonschema.validate(json.load(open('/verif/MANIFEST.json')), ms); print("MANIFEST ok")
except Exception as e:
    ok = False; print("MANIFEST INVALID", str(e)[:500])
for f in sorted(glob.glob('/verif/evidence/*.json')):
    try:
        jsonschema.validate(json.load(open(f)), es); print(f, "ok")
    except Exception as e:
        ok = False; print(f, "INVALID", str(e)[:500])
sys.exit(0 if ok else 1)
