"""Input-cell alphabets, deviation-bounded rows and finite-difference Jacobians (float64)."""
import math

import numpy as np
import torch

from mc.params import pat_values


def nxt(v, direction, n=1):
    v = float(v)
    for _ in range(n):
        v = float(np.nextafter(v, direction))
    return v


def base_row(D, dom, j=0):
    """generic, pairwise distinct interior values (no coordinate on a kink)"""
    lo, hi = dom
    u = 0.5 + 0.37 * np.sin((np.arange(D) + 1.0) * 2.399963 + 0.7 + 0.31 * j)  # in (0.13, 0.87)
    if lo is not None and hi is not None:
        return lo + (hi - lo) * u
    if lo is not None:
        return lo + 0.2 + 2.0 * u
    if hi is not None:
        return hi - 0.2 - 2.0 * u
    return -0.85 + 1.7 * u  # inside every spline region (tail bounds >= 1)


def cells_for(dom, specials, knots, tier="quick"):
    """list of (value, cell class) for one coordinate, simplest first; all values inside the closed domain"""
    lo, hi = dom
    out = []

    def add(v, tag):
        if lo is not None and v < lo:
            return
        if hi is not None and v > hi:
            return
        if not math.isfinite(v):
            return
        for w, _ in out:
            if w == v:
                return
        out.append((float(v), tag))

    if lo is not None and hi is not None:
        w = hi - lo
        for fr in (0.47, 0.21, 0.83):  # generic fractions: never a knot of a uniform 1..12-bin spline
            add(lo + w * fr, "interior")
        add(lo, "end-point")
        add(hi, "end-point")
        add(nxt(lo, hi, 1), "end-point-nbr")
        add(nxt(hi, lo, 1), "end-point-nbr")
        add(nxt(lo, hi, 3), "end-point-nbr")
        add(nxt(hi, lo, 3), "end-point-nbr")
        add(lo + 1e-7 * w, "end-point-near")
        add(hi - 1e-7 * w, "end-point-near")
    elif lo is None and hi is None:
        for v in (0.0, 0.3, -0.3, 1.0, -1.0, 2.5, -2.5, 6.0, -6.0):
            add(v, "interior" if abs(v) < 1 else "far")
    else:
        b = lo if lo is not None else hi
        sgn = 1.0 if lo is not None else -1.0
        for d in (1.0, 0.3, 2.5, 1e-3, 20.0):
            add(b + sgn * d, "interior")
    for sp in specials:
        add(sp, "special")
        for n in (1, 3):
            add(nxt(sp, math.inf, n), "special-nbr")
            add(nxt(sp, -math.inf, n), "special-nbr")
        add(sp + 0.37 * max(1.0, abs(sp)), "beyond-special")
        add(sp - 0.37 * max(1.0, abs(sp)), "beyond-special")
    if knots is not None:
        ks = list(np.asarray(knots, dtype=np.float64).ravel())
        for a, b in zip(ks[:-1], ks[1:]):
            add(0.5 * (a + b), "bin-mid")
            if tier == "thorough":
                add(a + 0.123 * (b - a), "bin-interior")
                add(a + 0.9 * (b - a), "bin-interior")
        for k in ks[1:-1]:
            add(k, "knot")
            add(nxt(k, math.inf, 1), "knot-nbr")
            add(nxt(k, -math.inf, 1), "knot-nbr")
            if tier == "thorough":
                add(nxt(k, math.inf, 3), "knot-nbr")
                add(nxt(k, -math.inf, 3), "knot-nbr")
    return out


def sweep_coords(D, tier):
    if D <= 4 or tier == "thorough":
        return list(range(D))
    return sorted({0, D // 2, D - 1})


def rows_1dev(D, dom, specials, knots_per_coord, tier="quick", j=0):
    """base row + every coordinate swept through its cell alphabet with the others at base.
    knots_per_coord: None | 1-D array (same for all coordinates) | [D, K+1] array"""
    base = base_row(D, dom, j)
    rows = [(base.copy(), "base", -1)]
    for i in sweep_coords(D, tier):
        kn = None
        if knots_per_coord is not None:
            k = np.asarray(knots_per_coord)
            kn = k if k.ndim == 1 else k[i % k.shape[0]]
        for v, tag in cells_for(dom, specials, kn, tier):
            r = base.copy()
            r[i] = v
            rows.append((r, tag, i))
    return rows


def rows_2dev(D, dom, specials, knots_per_coord, tier="thorough", j=0, cap=400):
    """two coordinates off base simultaneously (thorough); capped"""
    base = base_row(D, dom, j)
    rows = []
    cs = sweep_coords(D, "quick")
    for a in cs:
        for b in cs:
            if a >= b:
                continue
            ka = kb = None
            if knots_per_coord is not None:
                k = np.asarray(knots_per_coord)
                ka = k if k.ndim == 1 else k[a % k.shape[0]]
                kb = k if k.ndim == 1 else k[b % k.shape[0]]
            ca = [c for c in cells_for(dom, specials, ka, "quick") if c[1] not in ("interior", "far")]
            cb = [c for c in cells_for(dom, specials, kb, "quick") if c[1] not in ("interior", "far")]
            for va, ta in ca:
                for vb, tb in cb:
                    r = base.copy()
                    r[a], r[b] = va, vb
                    rows.append((r, ta + "+" + tb, a))
                    if len(rows) >= cap:
                        return rows
    return rows


def fd_jacobians(f, x, dom, h_rel=2e-5):
    """f: callable on [N, D] float64 numpy -> [N, D] numpy (row-wise map). Returns the 4th-order
    central Jacobian (Richardson of steps h and h/2), the plain central one with step h, and the two
    4th-order one-sided Jacobians (5-point stencils), with per-coordinate availability inside `dom`."""
    x = np.asarray(x, dtype=np.float64)
    D = x.size
    lo, hi = dom
    width = (hi - lo) if (lo is not None and hi is not None) else 1.0
    pts = [x.copy()]
    idx = {}
    hs = np.zeros(D)
    avail = {"c": np.ones(D, bool), "l": np.ones(D, bool), "r": np.ones(D, bool)}
    mults = (0.5, -0.5, 1.0, -1.0, 2.0, -2.0, 3.0, -3.0, 4.0, -4.0)
    for i in range(D):
        h = h_rel * max(1.0, abs(x[i])) * max(1.0, width) if width >= 1 else h_rel * width
        hs[i] = h
        for mult in mults:
            v = x[i] + mult * h
            ok = (lo is None or v >= lo) and (hi is None or v <= hi)
            if ok:
                p = x.copy()
                p[i] = v
                idx[(i, mult)] = len(pts)
                pts.append(p)
        avail["c"][i] = (i, 1.0) in idx and (i, -1.0) in idx
        avail["r"][i] = (i, 4.0) in idx
        avail["l"][i] = (i, -4.0) in idx
    Y = f(np.stack(pts))
    y0 = Y[0]
    Jc = np.zeros((D, D))
    Jc1 = np.zeros((D, D))
    Jl = np.zeros((D, D))
    Jr = np.zeros((D, D))
    g = lambda i, m: Y[idx[(i, m)]]
    for i in range(D):
        h = hs[i]
        r = l = c = c1 = None
        if avail["r"][i]:
            r = (-25 * y0 + 48 * g(i, 1.0) - 36 * g(i, 2.0) + 16 * g(i, 3.0) - 3 * g(i, 4.0)) / (12 * h)
        if avail["l"][i]:
            l = (25 * y0 - 48 * g(i, -1.0) + 36 * g(i, -2.0) - 16 * g(i, -3.0) + 3 * g(i, -4.0)) / (12 * h)
        if avail["c"][i]:
            c1 = (g(i, 1.0) - g(i, -1.0)) / (2 * h)
            c2 = (g(i, 0.5) - g(i, -0.5)) / h
            c = (4 * c2 - c1) / 3
        if c is None:
            c = r if r is not None else l
            c1 = c
        if r is None:
            r = l if l is not None else c
        if l is None:
            l = r
        Jc[:, i], Jc1[:, i], Jl[:, i], Jr[:, i] = c, c1, l, r
    return {"Jc": Jc, "Jc1": Jc1, "Jl": Jl, "Jr": Jr, "avail": avail, "y0": y0, "n_eval": len(pts)}


def logabsdet(J):
    s, l = np.linalg.slogdet(J)
    return float(l) if s != 0 else float("-inf")
