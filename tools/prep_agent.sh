#!/bin/bash
# prep_agent.sh <PID> [N]: create worktree /tmp/wt/<PID> and prompt file /tmp/wt/<PID>.prompt.txt
pid=$1; n=${2:-3}
mkdir -p /tmp/wt
git -C /repo worktree add -q --detach /tmp/wt/$pid HEAD
/venv/bin/python - "$pid" "$n" <<'PY'
import sys, json
pid, n = sys.argv[1], sys.argv[2]
for l in open('/verif/properties.jsonl'):
    p = json.loads(l)
    if p['id'] == pid:
        prop = "%s — %s\n\n%s\n\nQuantified over: %s\n" % (p['id'], p['title'], p['statement'], p['quantifier']['text'])
t = open('/tmp/wt/agent_prompt.tmpl').read()
t = t.replace('__WT__', '/tmp/wt/' + pid).replace('__PROP__', prop).replace('__PID__', pid).replace('__N__', n)
t = t.replace("(7 tests in tests/transforms/linear_test.py::NaiveLinearTest and tests/utils/torchutils_test.py::test_random_orthogonal may ALREADY fail before your change because torch.qr was removed; ignore those; every other test must still pass)", "(7 tests in tests/transforms/linear_test.py::NaiveLinearTest and tests/utils/torchutils_test.py::test_random_orthogonal may ALREADY fail before your change because torch.qr was removed; ignore those; every other test must still pass; do not use -x because of those)")
open('/tmp/wt/%s.prompt.txt' % pid, 'w').write(t)
PY
echo prepared $pid
