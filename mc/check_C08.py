"""C08 -- composite, inverse and multiscale wrappers are exact function composition (E3 program explorer).

(1) all wrapper programs W ::= leaf | Composite[W..] (1-3 parts) | Inverse(W) up to a node bound over
non-commuting leaves, compared with an interpreter that hand-chains the leaves' own
forward/inverse (bit-for-bit outputs, 1e-12 summed log-dets), both directions;
(2) MultiscaleCompositeTransform over all input shapes (<=3 dims of sizes 2..5), split dims and
1..3 stages, against a pure-Python routing model on index tags.
"""
import itertools
import math

import numpy as np
import torch

from mc.common import bump, new_result
from mc.params import fill
from nflows import transforms as T

PROPERTY = "C08"
RULE = (
    "(1) every well-formed wrapper program with <=6 (thorough <=7) nodes over 6 non-commuting leaves {2x+1, -0.5x+3, LeakyReLU(0.2), ReversePermutation(3), "
    "MaskedAffineAutoregressive(3) with pattern weights, the same with a 2-d context}, forward and inverse, on a 2x3 batch, plus the empty composite as a part, flat composites of 10..25 parts (parts handed over as generator / tuple / list), every call made twice on the same object; (2) MultiscaleCompositeTransform for every input shape with <=3 non-batch "
    "dims of sizes 2..5, every split_dim <= ndim, 1..3 stages (stage k = x -> prime_k * x + 10^(k+1) + context value, so every stage must be handed the context), incl. the combinations its constructor must reject, plus the documented "
    "misuse errors. Non-trivial = program with >=2 leaves or a multiscale with >=2 stages."
)
ASSUMPTIONS = [
    "reference = hand-chained evaluation using only the leaves' own forward/inverse (composite), direction swap (inverse wrapper), and a nested-list routing model of 'split in two halves, first half out, second half on' (multiscale)",
    "leaf alphabet of 5 transforms chosen to be pairwise non-commuting so that order is observable",
]

PRIMES = [2.0, 3.0, 5.0]


def bounds(tier, seed):
    return {"max_nodes": 6 if tier == "quick" else 7, "leaves": 5, "multiscale_shapes": "all with <=3 dims of sizes 2..5", "stages": [1, 2, 3]}


# ----------------------------------------------------------------------------- programs

_LEAVES = None


class NoCtx(T.Transform):
    """a context-free transform used inside context-carrying programs: it ignores the context it is handed
    (a MADE built without context features raises when it is given one)"""

    def __init__(self, inner):
        super().__init__()
        self.inner = inner

    def forward(self, x, context=None):
        return self.inner(x)

    def inverse(self, y, context=None):
        return self.inner.inverse(y)



def leaves():
    global _LEAVES
    if _LEAVES is None:
        torch.manual_seed(0)
        maf = T.MaskedAffineAutoregressiveTransform(3, 4, num_blocks=1)
        fill(maf, ("pat", 1, 0.8))
        mafc = T.MaskedAffineAutoregressiveTransform(3, 4, context_features=2, num_blocks=1)
        fill(mafc, ("pat", 2, 0.8))
        _LEAVES = [T.PointwiseAffineTransform(shift=1.0, scale=2.0), T.PointwiseAffineTransform(shift=3.0, scale=-0.5), T.LeakyReLU(0.2), T.ReversePermutation(3), NoCtx(maf.double().eval()), mafc.double().eval()]
        for l in _LEAVES:
            l.double()
    return _LEAVES


def programs(n):
    """all ASTs with exactly n nodes: ("L", i) | ("I", child) | ("C", [children])"""
    if n == 1:
        return [("L", i) for i in range(6)] + [("C", [])]  # the empty composite (identity, log-abs-det zeros(batch)) is a program of size one
    out = []
    for c in programs_cached(n - 1):
        out.append(("I", c))
        out.append(("C", [c]))
    for k in (2, 3):
        for sizes in itertools.product(range(1, n), repeat=k):
            if sum(sizes) != n - 1:
                continue
            for parts in itertools.product(*[programs_cached(s) for s in sizes]):
                out.append(("C", list(parts)))
    return out


_PC = {}


def programs_cached(n):
    if n not in _PC:
        _PC[n] = programs(n)
    return _PC[n]


def build(ast):
    if ast[0] == "L":
        return leaves()[ast[1]]
    if ast[0] == "I":
        return T.InverseTransform(build(ast[1]))
    parts = [build(c) for c in ast[1]]
    # the constructor takes any iterable of transforms: one part comes as a one-shot generator, two as a tuple, three as a list
    container = (p for p in parts) if len(parts) == 1 else (tuple(parts) if len(parts) == 2 else parts)
    return T.CompositeTransform(container)


def interp(ast, x, inverse):
    if ast[0] == "L":
        l = leaves()[ast[1]]
        return l.inverse(x, CTX) if inverse else l.forward(x, CTX)
    if ast[0] == "I":
        return interp(ast[1], x, not inverse)
    parts = ast[1][::-1] if inverse else ast[1]
    total = x.new_zeros(x.shape[0])
    for p in parts:
        x, ld = interp(p, x, inverse)
        total = total + ld
    return x, total


def nleaves(ast):
    if ast[0] == "L":
        return 1
    if ast[0] == "I":
        return nleaves(ast[1])
    return sum(nleaves(c) for c in ast[1])


def show(ast):
    if ast[0] == "L":
        return ["2x+1", "-x/2+3", "LReLU", "Rev", "MAF", "MAFctx"][ast[1]]
    if ast[0] == "I":
        return "Inv(%s)" % show(ast[1])
    return "Comp[%s]" % ", ".join(show(c) for c in ast[1])


X = torch.tensor([[0.3, -1.7, 2.2], [-0.4, 0.9, -3.1]], dtype=torch.float64)
CTX = torch.tensor([[0.7, -0.2], [-1.3, 0.4]], dtype=torch.float64)


def check_program(ast):
    out = []
    m = build(ast)
    for inverse in (False, True):
        name = "inverse" if inverse else "forward"
        with torch.no_grad():
            ry, rl = interp(ast, X, inverse)  # the hand-chained evaluation is defined for every program over these leaves (an exception here is a harness error)
            try:
                y, l = m.inverse(X, CTX) if inverse else m.forward(X, CTX)
                y_again, l_again = m.inverse(X, CTX) if inverse else m.forward(X, CTX)  # the wrapper is used more than once
            except Exception as e:
                out.append((name, "raises %s" % type(e).__name__, "%s %s raised %s although the hand-chained evaluation succeeds" % (show(ast), name, type(e).__name__)))
                continue
        if not (torch.is_tensor(y) and torch.is_tensor(l)):
            out.append((name, "result is not a pair of tensors", "%s %s returned %s / %s" % (show(ast), name, type(y).__name__, type(l).__name__)))
            continue
        if not (torch.is_tensor(y_again) and torch.equal(y_again, y) and torch.is_tensor(l_again) and l_again.shape == l.shape and torch.equal(l_again, l)):
            out.append((name, "second call on the same wrapper differs", "%s %s: the second call on the same object returns something else than the first" % (show(ast), name)))
        if y.shape != ry.shape or not torch.equal(y, ry):
            out.append((name, "outputs differ from hand-chained composition", "%s %s: outputs %s, hand-chained %s" % (show(ast), name, y.tolist(), ry.tolist())))
        if l.shape != rl.shape or not bool(((l - rl).abs() <= 1e-12 * (1 + rl.abs())).all()):
            out.append((name, "logabsdet is not the sum over the parts", "%s %s: logabsdet %s, sum over parts %s" % (show(ast), name, l.tolist(), rl.tolist())))
    return out


# ----------------------------------------------------------------------------- multiscale routing model


class CtxAffine(T.Transform):
    """stage transform y = p*x + s + c with c = context[:, 0] (integer valued): every stage must receive the context"""

    def __init__(self, p, s_):
        super().__init__()
        self.p, self.s_ = p, s_

    def _c(self, x, context):
        return context[:, 0].reshape(-1, *([1] * (x.dim() - 1)))

    def forward(self, x, context=None):
        n = x[0].numel()
        return x * self.p + self.s_ + self._c(x, context), x.new_full((x.shape[0],), n * math.log(self.p))

    def inverse(self, y, context=None):
        n = y[0].numel()
        return (y - self.s_ - self._c(y, context)) / self.p, y.new_full((y.shape[0],), -n * math.log(self.p))


def chunk2(nested, dim):
    """python model of torch.chunk(t, 2, dim) on nested lists without batch dim (dim is 0-based among non-batch dims)"""
    if dim == 0:
        n = len(nested)
        k = (n + 1) // 2
        return nested[:k], nested[k:]
    a, b = [], []
    for sub in nested:
        x, y = chunk2(sub, dim - 1)
        a.append(x)
        b.append(y)
    return a, b


def flat(n):
    if isinstance(n, list):
        r = []
        for e in n:
            r.extend(flat(e))
        return r
    return [n]


def mapn(f, n):
    return [mapn(f, e) for e in n] if isinstance(n, list) else f(n)


def shape_after_split(shape, sd):
    out, hid = list(shape), list(shape)
    out[sd] = (shape[sd] + 1) // 2
    hid[sd] = shape[sd] // 2
    return tuple(out), tuple(hid)


def check_multiscale(case):
    shape, split_dim, stages = tuple(case["shape"]), case["split_dim"], case["stages"]
    out = []
    V = lambda cell, sym, msg: out.append((cell, sym, msg))
    sd = split_dim - 1
    # model: is the configuration constructible?
    cur = shape
    valid = True
    for k in range(stages):
        if sd >= len(cur) or cur[sd] < 2:
            valid = False
            break
        if k != stages - 1:
            cur = shape_after_split(cur, sd)[1]
    try:
        ms = T.MultiscaleCompositeTransform(num_transforms=stages, split_dim=split_dim)
        cur = shape
        for k in range(stages):
            t = CtxAffine(PRIMES[k], 10.0 ** (k + 1))
            # the declared shape comes as a tuple, a list or a torch.Size in turn (all are accepted by the constructor's contract)
            kind = (stages + len(shape) + k) % 3
            nxt = ms.add_transform(t, cur if kind == 0 else (list(cur) if kind == 1 else torch.Size(cur)))
            if k != stages - 1:
                exp_hidden = shape_after_split(cur, sd)[1]
                if tuple(nxt) != exp_hidden:
                    V("construct", "wrong hidden shape", "add_transform returned hidden shape %s, expected %s" % (tuple(nxt), exp_hidden))
                cur = tuple(nxt)
            elif nxt is not None:
                V("construct", "last add_transform returned a shape", "expected None after the last transform, got %s" % (nxt,))
        built = True
    except ValueError as e:
        built = False
        if valid:
            V("construct", "rejects a valid configuration", "shape %s split_dim %d stages %d rejected: %s" % (shape, split_dim, stages, e))
    except Exception as e:
        built = False
        V("construct", "raises %s" % type(e).__name__, "shape %s split_dim %d stages %d: %s: %s" % (shape, split_dim, stages, type(e).__name__, e))
    if not valid:
        if built:
            V("construct", "accepts an unsplittable configuration", "shape %s split_dim %d stages %d accepted although a stage has size < 2 along the split dimension" % (shape, split_dim, stages))
        return out
    if not built:
        return out
    ms.double()
    D = int(np.prod(shape))
    B = 2
    x = torch.arange(1, B * D + 1, dtype=torch.float64).reshape(B, *shape)
    ctx = torch.tensor([[1000.0, 5.0], [2000.0, 7.0]], dtype=torch.float64)
    # reference on nested lists, per batch row
    ref_rows, ref_ld = [], []
    for b in range(B):
        hid = x[b].tolist()
        outs = []
        ld = 0.0
        for k in range(stages):
            n = len(flat(hid))
            hid = mapn(lambda v, k=k, b=b: v * PRIMES[k] + 10.0 ** (k + 1) + float(ctx[b, 0]), hid)
            ld += n * math.log(PRIMES[k])
            if k != stages - 1:
                o, hid = chunk2(hid, sd)
                outs.extend(flat(o))
            else:
                outs.extend(flat(hid))
        ref_rows.append(outs)
        ref_ld.append(ld)
    with torch.no_grad():
        try:
            y, ld = ms(x, ctx)
        except Exception as e:
            V("forward", "raises %s" % type(e).__name__, "forward on shape %s raised %s: %s" % (shape, type(e).__name__, str(e)[:100]))
            return out
    if y.dim() != 2 or y.shape[1] != D:
        V("forward", "output not flattened to [B, D]", "output shape %s for input shape %s" % (tuple(y.shape), (B,) + shape))
        return out
    if y.tolist() != ref_rows:
        V("forward", "routing differs from the documented prefix-of-stages model", "shape %s split_dim %d stages %d: row 0 = %s, model %s" % (shape, split_dim, stages, y[0].tolist(), ref_rows[0]))
    if not all(abs(float(a) - r) <= 1e-12 * (1 + abs(r)) for a, r in zip(ld, ref_ld)):
        V("forward", "logabsdet differs from the per-stage coordinate counts", "logabsdet %s, model %s" % (ld.tolist(), ref_ld))
    with torch.no_grad():
        try:
            xr, ldi = ms.inverse(y, ctx)
        except Exception as e:
            V("inverse", "raises %s" % type(e).__name__, "inverse(forward(x)) on shape %s raised %s: %s" % (shape, type(e).__name__, str(e)[:100]))
            return out
    if xr.shape != x.shape or not torch.equal(xr, x):
        V("inverse", "does not undo the routing", "inverse(forward(x)) != x exactly on integer tags for shape %s split_dim %d stages %d" % (shape, split_dim, stages))
    if not bool(((ldi + ld).abs() <= 1e-12 * (1 + ld.abs())).all()):
        V("inverse", "logabsdet not negated", "inverse logabsdet %s vs forward %s" % (ldi.tolist(), ld.tolist()))
    return out


def check_misuse():
    out = []

    def expect(exc, fn, what):
        try:
            fn()
            out.append(("misuse", "accepted", "%s did not raise %s" % (what, exc.__name__)))
        except exc:
            pass
        except Exception as e:
            out.append(("misuse", "wrong exception %s" % type(e).__name__, "%s raised %s instead of %s" % (what, type(e).__name__, exc.__name__)))

    expect(TypeError, lambda: T.MultiscaleCompositeTransform(2, split_dim=0), "split_dim=0")
    expect(TypeError, lambda: T.MultiscaleCompositeTransform(2, split_dim=1.0), "split_dim=1.0")
    ms = T.MultiscaleCompositeTransform(2, split_dim=1)
    ms.add_transform(T.IdentityTransform(), (4,))
    expect(RuntimeError, lambda: ms(torch.zeros(2, 4)), "forward before all transforms were added")
    expect(RuntimeError, lambda: ms.inverse(torch.zeros(2, 4)), "inverse before all transforms were added")
    ms.add_transform(T.IdentityTransform(), (2,))
    expect(RuntimeError, lambda: ms.add_transform(T.IdentityTransform(), (2,)), "adding a third transform to a 2-stage multiscale")
    expect(ValueError, lambda: ms(torch.zeros(4)), "forward on an input without the split dimension")
    expect(ValueError, lambda: ms.inverse(torch.zeros(2, 2, 2)), "inverse on a non-2D input")
    ms2 = T.MultiscaleCompositeTransform(1, split_dim=2)
    expect(ValueError, lambda: ms2.add_transform(T.IdentityTransform(), (4,)), "split_dim beyond the output shape")
    ms3 = T.MultiscaleCompositeTransform(2, split_dim=1)
    expect(ValueError, lambda: ms3.add_transform(T.IdentityTransform(), (1, 3)), "size 1 along the split dimension")
    return out


def ms_cases():
    for nd in (1, 2, 3):
        for shape in itertools.product((2, 3, 4, 5), repeat=nd):
            for sd in range(1, 4):
                for st in (1, 2, 3):
                    yield {"shape": list(shape), "split_dim": sd, "stages": st}


LONG_SIZES = (10, 11, 12, 13, 21, 25)


def units(tier, seed):
    maxn = 6 if tier == "quick" else 7
    us = []
    for n in range(1, maxn + 1):
        parts = 1 if n <= 4 else (4 if n == 5 else 16)
        for i in range(parts):
            us.append(("prog", n, i, parts))
    us.append(("long",))
    for i in range(8):
        us.append(("ms", i, 8))
    us.append(("misuse",))
    return us


def run_unit(unit):
    res = new_result()
    if unit[0] == "prog":
        _, n, i, parts = unit
        for ast in programs_cached(n)[i::parts]:
            vs = check_program(ast)
            res["evaluations"] += 1
            res["states"] += 1
            res["transitions"] += 2 * (1 + nleaves(ast))
            res["traces"] += 2
            if nleaves(ast) >= 2:
                res["nontrivial"] += 1
            bump(res["outcomes"], "program:size%d:%s" % (n, "violation" if vs else "ok"))
            for cell, sym, msg in vs:
                kind = "inverse-wrapper" if "Inv" in show(ast) else "composite"
                res["violations"].append({"key": "wrappers|%s|%s|%s" % (kind, cell, sym), "case": {"kind": "prog", "ast": ast}, "msg": msg})
            if not res["samples"] and n >= 4:
                res["samples"].append({"program": show(ast)})
    elif unit[0] == "long":
        # flat composites with many non-commuting parts (more than 10: container keys "10", "11", ... sort before "2")
        for n in LONG_SIZES:
            for off in range(3):
                ast = ("C", [("L", (j + off) % 5) for j in range(n)])
                vs = check_program(ast)
                res["evaluations"] += 1
                res["states"] += 1
                res["transitions"] += 2 * (1 + n)
                res["traces"] += 2
                res["nontrivial"] += 1
                bump(res["outcomes"], "long-composite:%s" % ("violation" if vs else "ok"))
                for cell, sym, msg in vs:
                    res["violations"].append({"key": "wrappers|composite-long|%s|%s" % (cell, sym), "case": {"kind": "prog", "ast": ast}, "msg": msg if len(msg) < 600 else msg[:600] + " ..."})
    elif unit[0] == "ms":
        _, i, k = unit
        for case in list(ms_cases())[i::k]:
            vs = check_multiscale(case)
            res["evaluations"] += 1
            res["states"] += 1
            res["transitions"] += 2
            res["traces"] += 1
            if case["stages"] >= 2:
                res["nontrivial"] += 1
            bump(res["outcomes"], "multiscale:%s" % ("violation" if vs else "ok"))
            for cell, sym, msg in vs:
                res["violations"].append({"key": "MultiscaleCompositeTransform|%s|%s" % (cell, sym), "case": {"kind": "ms", **case}, "msg": msg})
            if not res["samples"]:
                res["samples"].append(case)
    else:
        vs = check_misuse()
        res["evaluations"] += 10
        res["states"] += 10
        res["transitions"] += 10
        res["traces"] += 10
        res["nontrivial"] += 10
        for cell, sym, msg in vs:
            res["violations"].append({"key": "MultiscaleCompositeTransform|%s|%s" % (cell, sym), "case": {"kind": "misuse"}, "msg": msg})
    return res


def _tup(a):
    if a[0] == "L":
        return ("L", a[1])
    if a[0] == "I":
        return ("I", _tup(a[1]))
    return ("C", [_tup(c) for c in a[1]])


def replay(case):
    if case["kind"] == "prog":
        ast = _tup(case["ast"])
        kind = "inverse-wrapper" if "Inv" in show(ast) else "composite"
        return [{"key": "wrappers|%s|%s|%s" % (kind, c, s), "case": case, "msg": m} for c, s, m in check_program(ast)]
    if case["kind"] == "ms":
        return [{"key": "MultiscaleCompositeTransform|%s|%s" % (c, s), "case": case, "msg": m} for c, s, m in check_multiscale(case)]
    return [{"key": "MultiscaleCompositeTransform|%s|%s" % (c, s), "case": case, "msg": m} for c, s, m in check_misuse()]
