"""C10 -- weight caching in linear transforms is transparent over every history (E2 history explorer).

All call sequences over a finite operation alphabet up to a depth are replayed from the empty
history on a fresh real object; after every observing step the results are compared with an
uncached twin rebuilt from the subject's current state_dict (the reference model).  A second pass
explores the concrete state graph breadth-first with state hashing until the fixpoint (no depth
bound): the hash covers the complete concrete state that the implementation reads (mode, flag,
dtype, every parameter/buffer value and the three cache slots), so merging is exact.
"""
import copy
import hashlib
import itertools

from mc import common
from mc.common import bump, new_result, violation
from mc.params import fill, pat_tensor

import torch
from nflows import transforms as T

PROPERTY = "C10"
RULE = (
    "all histories over the alphabet {train, eval, cache_on, cache_off, fwd, inv, fwd_bwd, step (training mode only), "
    "load_A, load_B, dtype_rt, to_double [, sgd, copy in thorough]} up to the depth bound that end in an observing "
    "operation (every other history is a prefix of one of these and is checked as such), replayed from scratch on a "
    "fresh object for each of 5 classes x {bare, nested in CompositeTransform} x {cache initially on, off}; plus BFS "
    "with exact state hashing to the fixpoint. The observing calls of one history use batches of 3, 1, 2, 3, ... rows in turn (BFS: "
    "separate letters for 3-row and 1-row calls). Non-trivial = the history contains a cache fill (eval & cache on & "
    "fwd/inv) that is followed by a later observation."
)
ASSUMPTIONS = [
    "reference model = a fresh instance of the same configuration with caching off, loaded with the subject's current state_dict(), same mode and dtype",
    "parameter values come from 3 deterministic non-degenerate patterns (initial, A, B) plus in-place nudges",
    "float32 comparison tolerance 1e-4*scale, float64 1e-10*scale (stale results differ by O(0.1))",
    "BFS state hash reads the private cache slots (cache.weight/inverse/logabsdet) to make the hash cover the full concrete state",
]

OBS = ("fwd", "inv", "fwd_bwd")
SIGMA_Q = ("eval", "train", "cache_on", "cache_off", "fwd", "inv", "load_A", "step", "to_double", "dtype_rt", "fwd_bwd", "load_B")
SIGMA_T = SIGMA_Q + ("sgd", "copy")
SIGMA_NODT = ("eval", "train", "cache_off", "fwd", "inv", "load_A", "step")
CAUSES = {"load_A": "load", "load_B": "load", "step": "update", "sgd": "update", "dtype_rt": "dtype_rt", "to_double": "to_double", "copy": "copy", "fwd_bwd": "fwd_bwd"}

CLASSES = ["LULinear", "QRLinear", "SVDLinear", "NaiveLinear", "OneByOneConvolution"]
F = 3


def bounds(tier, seed):
    return {
        "alphabet_12": list(SIGMA_Q),
        "depth_alphabet_12": 4 if tier == "quick" else 5,
        "alphabet_14_thorough": list(SIGMA_T),
        "depth_alphabet_14": None if tier == "quick" else 4,
        "depth_reduced_alphabet": None if tier == "quick" else 6,
        "reduced_alphabet": list(SIGMA_NODT),
        "classes": CLASSES,
        "nesting": ["bare", "composite"],
        "initial_cache_flag": [False, True],
        "bfs": "to fixpoint over exact concrete state hash",
        "param_pattern_index": seed % 3,
    }


def build(cls, using_cache):
    if cls == "LULinear":
        return T.LULinear(F, using_cache=using_cache, identity_init=True)
    if cls == "QRLinear":
        return T.QRLinear(F, num_householder=3, using_cache=using_cache)
    if cls == "SVDLinear":
        return T.SVDLinear(F, num_householder=4, using_cache=using_cache)
    if cls == "NaiveLinear":
        return T.NaiveLinear(F, orthogonal_initialization=False, using_cache=using_cache)
    if cls == "OneByOneConvolution":
        with torch.random.fork_rng():
            torch.manual_seed(5)
            return T.OneByOneConvolution(F, using_cache=using_cache, identity_init=True)
    raise ValueError(cls)


def set_params(m, j):
    fill(m, ("pat", j, 0.7))
    with torch.no_grad():
        if hasattr(m, "_weight"):
            m._weight.add_(2.0 * torch.eye(F, dtype=m._weight.dtype))
    return m


def probe(cls, dtype, k=0, rows=None):
    """the probe batch; `rows` keeps only the first rows (the observing calls of one history use batches of different sizes:
    a cache must not remember anything that depends on the batch it was filled with)"""
    if cls == "OneByOneConvolution":
        x = pat_tensor((2, F, 2, 2), 3 + k, 1.3, dtype=dtype)
    else:
        x = pat_tensor((3, F), 3 + k, 1.3, dtype=dtype)
    return x if rows is None else x[: max(1, min(rows, x.shape[0]))].clone()


ROWS_CYCLE = (3, 1, 2)  # batch size of the n-th observing call of a history


_SD = {}


def twin_sd(cls, which, seed):
    key = (cls, which, seed)
    if key not in _SD:
        m = set_params(build(cls, False), {"A": 1, "B": 2}[which] + 3 * (seed % 3))
        _SD[key] = {k: v.clone() for k, v in m.state_dict().items()}
    return _SD[key]


class Sys:
    def __init__(self, cls, nested, init_cache, seed):
        self.cls = cls
        self.seed = seed
        self.sub = set_params(build(cls, init_cache), 0 + 3 * (seed % 3))
        self.root = T.CompositeTransform([self.sub]) if nested else self.sub
        self.dtype = torch.float32
        self.nsteps = 0
        self.ncalls = 0
        self.rows = None

    def twin(self):
        t = build(self.cls, False)
        if self.dtype == torch.float64:
            t.double()
        t.load_state_dict(self.sub.state_dict())
        t.train(self.sub.training)
        return t


def tol_for(dtype, ref):
    scale = max(1.0, float(ref.abs().max())) if ref.numel() else 1.0
    return (1e-4 if dtype == torch.float32 else 1e-10) * scale


def compare(a, b, dtype):
    """a: subject results, b: twin results (tuples of tensors)"""
    for name, x, y in zip(("outputs", "logabsdet", "input-grad"), a, b):
        if x.shape != y.shape:
            return "%s shape %s vs uncached %s" % (name, tuple(x.shape), tuple(y.shape))
        if x.dtype != y.dtype:
            return "%s dtype %s vs uncached %s" % (name, x.dtype, y.dtype)
        if not torch.isfinite(x).all():
            return "%s not finite" % name
        d = float((x.double() - y.double()).abs().max())
        if d > tol_for(dtype, y):
            return "%s differ from uncached recomputation by %.3g" % (name, d)
    return None


def apply_op(s, op):
    """Apply op to the system. Returns None, or for observing ops the tuple of results."""
    sub, root = s.sub, s.root
    if op in ("fwd", "inv", "fwd_bwd", "copy"):
        s.rows = ROWS_CYCLE[s.ncalls % len(ROWS_CYCLE)]
        s.ncalls += 1
    elif op in ("fwd1", "inv1"):  # BFS letters: the same calls on a single row (no call counter in the BFS state)
        s.rows = 1
        op = op[:-1]
    elif op in ("fwd3", "inv3"):
        s.rows = 3
        op = op[:-1]
    if op == "train":
        root.train()
    elif op == "eval":
        root.eval()
    elif op == "cache_on":
        sub.use_cache(True)
    elif op == "cache_off":
        sub.use_cache(False)
    elif op in ("load_A", "load_B"):
        sd = twin_sd(s.cls, op[-1], s.seed)
        sd = {k: v.to(s.dtype) if v.is_floating_point() else v for k, v in sd.items()}
        if root is not sub:
            # a checkpoint is loaded through the enclosing module (children only see _load_from_state_dict)
            root.load_state_dict({"_transforms.0." + k: v for k, v in sd.items()})
        else:
            sub.load_state_dict(sd)
    elif op == "step":
        s.nsteps += 1
        with torch.no_grad():
            for i, p in enumerate(sub.parameters()):
                p.add_(pat_tensor(p.shape, 4, 0.15, offset=7 * i + s.nsteps, dtype=p.dtype))
    elif op == "sgd":
        opt = torch.optim.SGD(sub.parameters(), lr=0.05)
        y, ld = root(probe(s.cls, s.dtype, 1))
        ((y ** 2).sum() + ld.sum()).backward()
        opt.step()
        opt.zero_grad()
    elif op == "dtype_rt":
        root.double()
        root.float()
        s.dtype = torch.float32
    elif op == "to_double":
        root.double()
        s.dtype = torch.float64
    elif op == "copy":
        c = copy.deepcopy(root)
        return c(probe(s.cls, s.dtype, rows=s.rows))[:2]
    elif op == "fwd":
        with torch.no_grad():
            return root(probe(s.cls, s.dtype, rows=s.rows))
    elif op == "inv":
        with torch.no_grad():
            return root.inverse(probe(s.cls, s.dtype, rows=s.rows))
    elif op == "fwd_bwd":
        x = probe(s.cls, s.dtype, rows=s.rows).requires_grad_(True)
        y, ld = root(x)
        ((y * y).sum() + ld.sum()).backward()
        for p in sub.parameters():
            p.grad = None
        return y.detach(), ld.detach(), x.grad
    else:
        raise ValueError(op)
    return None


def twin_obs(s, op):
    t = s.twin()
    if op in ("fwd1", "inv1", "fwd3", "inv3"):
        op = op[:-1]
    if op in ("fwd", "copy"):
        with torch.no_grad():
            return t(probe(s.cls, s.dtype, rows=s.rows))
    if op == "inv":
        with torch.no_grad():
            return t.inverse(probe(s.cls, s.dtype, rows=s.rows))
    if op == "fwd_bwd":
        x = probe(s.cls, s.dtype, rows=s.rows).requires_grad_(True)
        y, ld = t(x)
        ((y * y).sum() + ld.sum()).backward()
        return y.detach(), ld.detach(), x.grad
    raise ValueError(op)


def enabled(op, training):
    if op in ("step", "sgd"):
        return training  # the property: parameter updates happen in training mode
    return True


def run_history(cls, nested, init_cache, hist, seed):
    """Returns (violations[(key,msg)], info) ; stops at the first violation of the history."""
    s = Sys(cls, nested, init_cache, seed)
    cause = "none"
    filled = False
    nontrivial = False
    nobs = 0
    for i, op in enumerate(hist):
        if not enabled(op, s.sub.training):
            return None, None  # history not in the enumerated space
        is_obs = op in OBS or op == "copy"
        try:
            r = apply_op(s, op)
        except Exception as e:
            # does the uncached reference support the operation?
            try:
                if is_obs:
                    twin_obs(s, op)
                ok_ref = True
            except Exception:
                ok_ref = False
            if ok_ref:
                sym = "%s: %s" % (type(e).__name__, " ".join(str(e).split())[:60])
                key = "%s|%s@after:%s|raises %s" % (cls, op, cause, sym)
                return [(key, "history %s: step %d (%s) raised %s: %s -- the uncached transform supports it" % (list(hist), i, op, type(e).__name__, str(e)[:200]))], {"nontrivial": nontrivial, "nobs": nobs}
            return [], {"nontrivial": nontrivial, "nobs": nobs, "aborted": True}
        if is_obs:
            nobs += 1
            if filled:
                nontrivial = True
            ref = twin_obs(s, op)
            bad = compare(r, ref, s.dtype)
            if bad:
                key = "%s|%s@after:%s|stale or wrong result" % (cls, op, cause)
                return [(key, "history %s: step %d (%s): %s" % (list(hist), i, op, bad))], {"nontrivial": nontrivial, "nobs": nobs}
            if op in ("fwd", "inv", "fwd_bwd"):
                # the caller owns what a call returns: it updates outputs and log-abs-det in place (as CouplingTransform does with
                # the log-abs-det of its unconditional transform). The uncached transform returns fresh tensors, so this must be
                # possible, and it must not reach the cache (the next observation of the history compares again).
                try:
                    for t in r[:2]:
                        t.add_(1.0)
                except Exception as e:
                    try:
                        for t in ref[:2]:
                            t.add_(1.0)
                        ok_ref = True
                    except Exception:
                        ok_ref = False
                    if ok_ref:
                        key = "%s|%s@after:%s|result cannot be updated in place (%s)" % (cls, op, cause, type(e).__name__)
                        return [(key, "history %s: step %d (%s): in-place update of the returned tensors raised %s: %s -- the uncached transform's results support it" % (list(hist), i, op, type(e).__name__, str(e)[:160]))], {"nontrivial": nontrivial, "nobs": nobs}
            if (not s.sub.training) and s.sub.using_cache and op in ("fwd", "inv", "fwd_bwd"):
                filled = True
        if op in CAUSES:
            cause = CAUSES[op]
    return [], {"nontrivial": nontrivial, "nobs": nobs}


# ------------------------------------------------------------------ BFS with exact state hashing


def _h(t):
    if t is None:
        return "-"
    return hashlib.sha1(t.detach().contiguous().cpu().numpy().tobytes() + str(t.dtype).encode()).hexdigest()[:10]


def state_key(s):
    sub = s.sub
    sd = "".join(_h(v) for v in sub.state_dict().values())
    c = sub.cache
    return (sub.training, sub.using_cache, str(s.dtype), hashlib.sha1(sd.encode()).hexdigest()[:12], _h(c.weight), _h(c.inverse), _h(c.logabsdet))


BFS_SIGMA = ("eval", "train", "cache_on", "cache_off", "fwd", "inv", "fwd1", "inv1", "load_A", "load_B", "setC", "to_double", "to_float")
BFS_OBS = OBS + ("fwd1", "inv1")


def bfs_apply(s, op):
    if op == "setC":  # an optimiser writing a fixed new parameter vector in place (idempotent => finite state space)
        with torch.no_grad():
            for i, p in enumerate(s.sub.parameters()):
                p.copy_(pat_tensor(p.shape, 5, 0.6, offset=11 * i, dtype=p.dtype))
            if hasattr(s.sub, "_weight"):
                s.sub._weight.add_(2.0 * torch.eye(F, dtype=s.sub._weight.dtype))
        return None
    if op == "to_float":
        s.root.float()
        s.dtype = torch.float32
        return None
    if op in ("fwd", "inv"):
        op = op + "3"  # fixed batch sizes in the BFS (3 rows resp. 1 row for fwd1/inv1): the state hash has no call counter
    return apply_op(s, op)


def run_bfs(cls, nested, seed, cap):
    res = new_result()
    init = ()
    seen = {}
    frontier = [init]
    depth_max = 0
    capped = False
    while frontier and not capped:
        nxt = []
        for hist in frontier:
            if capped:
                break
            for op in BFS_SIGMA:
                h2 = hist + (op,)
                s = Sys(cls, nested, True, seed)
                ok = True
                cause = "none"
                try:
                    for o in hist:
                        if o == "setC" and not s.sub.training:
                            ok = False
                            break
                        bfs_apply(s, o)
                        if o in CAUSES or o in ("setC", "to_float"):
                            cause = CAUSES.get(o, o)
                except Exception:
                    ok = False  # prefix already reported when it was the last step
                if not ok or (op == "setC" and not s.sub.training):
                    continue
                res["transitions"] += 1
                case = {"mode": "bfs", "cls": cls, "nested": nested, "hist": list(h2), "seed": seed}
                try:
                    r = bfs_apply(s, op)
                except Exception as e:
                    try:
                        if op in BFS_OBS:
                            twin_obs(s, op)
                        okref = True
                    except Exception:
                        okref = False
                    if okref:
                        sym = "%s: %s" % (type(e).__name__, " ".join(str(e).split())[:60])
                        violation(res, "%s|%s@after:%s|raises %s" % (cls, op, cause, sym), case, "bfs history %s: %s raised %s" % (list(h2), op, str(e)[:160]))
                    continue
                if op in BFS_OBS:
                    res["traces"] += 1
                    bad = compare(r, twin_obs(s, op), s.dtype)
                    if bad:
                        violation(res, "%s|%s@after:%s|stale or wrong result" % (cls, op, cause), case, "bfs history %s: %s" % (list(h2), bad))
                        continue
                k = state_key(s)
                if k not in seen:
                    seen[k] = h2
                    nxt.append(h2)
                    depth_max = max(depth_max, len(h2))
                    if len(seen) >= cap:
                        res["caps"].append("bfs state cap %d hit for %s" % (cap, cls))
                        capped = True
                        break
        frontier = nxt
    res["states"] = len(seen)
    res["evaluations"] = res["transitions"]
    res["nontrivial"] = len([k for k in seen if k[4] != "-" or k[5] != "-"])
    bump(res["outcomes"], "bfs:%s:states=%d:depth=%d" % (cls, len(seen), depth_max))
    res["samples"].append({"mode": "bfs", "cls": cls, "nested": nested, "states": len(seen), "max_depth": depth_max, "deepest_history": list(max(seen.values(), key=len)) if seen else []})
    return res


def replay_bfs(case):
    s = Sys(case["cls"], case["nested"], True, case["seed"])
    hist = case["hist"]
    cause = "none"
    out = []
    for i, o in enumerate(hist):
        last = i == len(hist) - 1
        try:
            r = bfs_apply(s, o)
        except Exception as e:
            if last:
                sym = "%s: %s" % (type(e).__name__, " ".join(str(e).split())[:60])
                out.append({"key": "%s|%s@after:%s|raises %s" % (case["cls"], o, cause, sym), "msg": "bfs history %s: %s raised %s" % (hist, o, str(e)[:160]), "case": case})
            return out
        if last and o in BFS_OBS:
            bad = compare(r, twin_obs(s, o), s.dtype)
            if bad:
                out.append({"key": "%s|%s@after:%s|stale or wrong result" % (case["cls"], o, cause), "msg": "bfs history %s: %s" % (hist, bad), "case": case})
        if o in CAUSES or o in ("setC", "to_float"):
            cause = CAUSES.get(o, o)
    return out


# ------------------------------------------------------------------ units


def histories(sigma, depth):
    for L in range(1, depth + 1):
        for pre in itertools.product(sigma, repeat=L - 1):
            for last in sigma:
                if last in OBS or last == "copy":
                    yield pre + (last,)


def units(tier, seed):
    us = []
    for cls in CLASSES:
        for nested in (False, True):
            for init_cache in (True, False):
                # split by first operation so that units are of similar size
                if tier == "quick":
                    for first in SIGMA_Q:
                        us.append(("hist", cls, nested, init_cache, "Q", first, 4, seed))
                else:
                    for first in SIGMA_Q:
                        us.append(("hist", cls, nested, init_cache, "Q", first, 5, seed))
                    for first in SIGMA_T:
                        us.append(("hist", cls, nested, init_cache, "T", first, 4, seed))
                    for first in SIGMA_NODT:
                        us.append(("hist6", cls, nested, init_cache, "N", first, 6, seed))
    for cls in CLASSES:
        for nested in (False, True):
            us.append(("bfs", cls, nested, seed, 4000 if tier == "quick" else 20000))
    return us


def run_unit(unit):
    if unit[0] == "bfs":
        _, cls, nested, seed, cap = unit
        return run_bfs(cls, nested, seed, cap)
    kind, cls, nested, init_cache, which, first, depth, seed = unit
    sigma = {"Q": SIGMA_Q, "T": SIGMA_T, "N": SIGMA_NODT}[which]
    res = new_result()
    for hist in histories(sigma, depth):
        if hist[0] != first:
            continue
        if kind == "hist6" and len(hist) != 6:
            continue  # shorter ones are covered by the full-alphabet pass
        if which == "T" and not any(o in ("sgd", "copy") for o in hist):
            continue  # covered by the 12-letter pass
        vs, info = run_history(cls, nested, init_cache, hist, seed)
        if vs is None:
            continue
        res["evaluations"] += 1
        res["states"] += len(hist)
        res["transitions"] += len(hist)
        res["traces"] += 1
        if info.get("nontrivial"):
            res["nontrivial"] += 1
        case = {"mode": "hist", "cls": cls, "nested": nested, "init_cache": init_cache, "hist": list(hist), "seed": seed}
        if vs:
            bump(res["outcomes"], "violation:" + vs[0][0].split("|")[2][:30])
        else:
            bump(res["outcomes"], "ok:obs=%d:%s" % (info["nobs"], "fill-then-observe" if info["nontrivial"] else "plain"))
        for key, msg in vs:
            violation(res, key, case, msg)
        if not res["samples"] and info.get("nontrivial") and len(hist) == depth:
            res["samples"].append(case)
    return res


def replay(case):
    if case.get("mode") == "bfs":
        return replay_bfs(case)
    vs, _ = run_history(case["cls"], case["nested"], case["init_cache"], tuple(case["hist"]), case["seed"])
    return [{"key": k, "msg": m, "case": case} for k, m in (vs or [])]


def case_size(case):
    return len(case.get("hist", []))
