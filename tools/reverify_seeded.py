#!/venv/bin/python
"""Re-run every seeded change against the CURRENT /repo HEAD: patch applies? demo fails with / passes without? first detecting check still raises VIOLATION?
Writes /verif/seeded/REVERIFY.json. (The repo test suite part is not repeated here; it was run at adoption time, see meta.json.)"""
import glob, json, os, subprocess, sys, time
V = "/verif"
OUT = os.environ.get("REVERIFY_OUT", V + "/seeded/REVERIFY.json")  # shards write their own file; merge with tools/reverify_merge.py
NCHECKS = int(os.environ.get("REVERIFY_NCHECKS", "1"))  # how many of the listed detecting checks are re-run per change (the first = usually the property's own)
out = {}
if os.environ.get("REVERIFY_RESUME") and os.path.exists(OUT):
    out = json.load(open(OUT))
only = sys.argv[1:]
for d in sorted(glob.glob(V + "/seeded/*/")):
    sid = os.path.basename(d.rstrip("/"))
    if only and sid not in only:
        continue
    if sid in out and out[sid].get("checks"):
        continue
    meta = json.load(open(d + "meta.json"))
    wt = "/tmp/mut/rv_%s" % sid
    subprocess.run("git -C /repo worktree remove --force %s" % wt, shell=True, capture_output=True)
    r = subprocess.run("git -C /repo worktree add -q --detach %s HEAD && git -C %s apply %spatch.diff" % (wt, wt, d), shell=True, capture_output=True, text=True)
    rec = {"applies": r.returncode == 0, "repo_head": subprocess.run("git -C /repo rev-parse --short HEAD", shell=True, capture_output=True, text=True).stdout.strip()}
    if rec["applies"]:
        env = dict(os.environ, PYTHONPATH=wt, OMP_NUM_THREADS="1")
        dm = subprocess.run(["/venv/bin/python", d + "demo.py"], capture_output=True, text=True, env=env, cwd=d)
        dc = subprocess.run(["/venv/bin/python", d + "demo.py"], capture_output=True, text=True, env=dict(os.environ, PYTHONPATH="/repo", OMP_NUM_THREADS="1"), cwd=d)
        rec["demo_fails_with_change"] = dm.returncode != 0
        rec["demo_passes_without"] = dc.returncode == 0
        rec["checks"] = {}
        for pid in meta.get("detected_by", [])[:NCHECKS]:
            t0 = time.time()
            c = subprocess.run(["/venv/bin/python", "-m", "mc.check", pid, "--tier", "quick"], capture_output=True, text=True, cwd=V,
                               env=dict(os.environ, NFLOWS_SRC=wt, VERIF_EVIDENCE_DIR="/tmp/mut/rv_evidence"))
            rec["checks"][pid] = {"exit": c.returncode, "violation_lines": sum(1 for l in c.stdout.splitlines() if l.startswith("VIOLATION property=")), "wall_s": round(time.time() - t0, 1)}
    else:
        rec["apply_error"] = r.stderr[-300:]
    subprocess.run("git -C /repo worktree remove --force %s; git -C /repo worktree prune" % wt, shell=True, capture_output=True)
    out[sid] = rec
    print(sid, json.dumps(rec)[:300], flush=True)
    json.dump(out, open(OUT, "w"), indent=1)
