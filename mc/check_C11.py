"""C11 -- linear-family accessors all describe one and the same affine map (E1 product explorer)."""
import numpy as np
import torch

from mc.common import bump, new_result
from mc.params import fill, pat_tensor
from nflows import transforms as T
from nflows.utils import torchutils

PROPERTY = "C11"
RULE = (
    "{NaiveLinear(orthogonal init / uniform init), LULinear(identity_init on/off), QRLinear, SVDLinear(identity_init on/off), HouseholderSequence} x features 1..6 (thorough: up to 12) x Householder "
    "counts 1..2F+2 (odd, even, larger than the feature count) x parameter patterns {as constructed, pat1, pat3, patT (Householder vectors rescaled by 1e-4 / 1e4), patG (NaiveLinear: the pattern map times 1e7 / 1e-8, float64 1e60 / 1e-60)} x dtype {float64, float32}. One case = one constructed transform with all "
    "accessor identities checked on a 3-row batch. Non-trivial = features >= 2 or a Householder count other than 2."
)
ASSUMPTIONS = [
    "constructor-accepted = not rejected by an explicit argument check (TypeError/ValueError/AssertionError); any other exception, a NaN/inf parameter or a non-invertible matrix is a violation",
    "identities hold to 1e-10*cond (float64) / 2e-4*cond (float32), cond = condition number of weight()",
    "utils.random_orthogonal (used by NaiveLinear's default initialisation) is checked here as well: Q^T Q = I",
]

DT = {"float64": torch.float64, "float32": torch.float32}


def bounds(tier, seed):
    return {"features": [1, 2, 3, 4, 5, 6] if tier == "quick" else [1, 2, 3, 4, 5, 6, 8, 12], "householder": "1..2F+2", "patterns": ["init", "pat1", "pat3"], "dtypes": list(DT)}


def cases(tier, seed):
    for F in ((1, 2, 3, 4, 5, 6) if tier == "quick" else (1, 2, 3, 4, 5, 6, 8, 12)):
        for orth in (True, False):
            yield {"cls": "NaiveLinear", "F": F, "opt": {"orth": orth}}
        for ii in (True, False):
            yield {"cls": "LULinear", "F": F, "opt": {"identity_init": ii}}
        for k in range(1, 2 * F + 3):
            yield {"cls": "QRLinear", "F": F, "opt": {"householder": k}}
            yield {"cls": "HouseholderSequence", "F": F, "opt": {"householder": k}}
            for ii in (True, False):
                yield {"cls": "SVDLinear", "F": F, "opt": {"householder": k, "identity_init": ii}}
    for n in (1, 2, 3, 5):
        yield {"cls": "random_orthogonal", "F": n, "opt": {}}


def construct(c):
    cls, F, o = c["cls"], c["F"], c["opt"]
    if cls == "NaiveLinear":
        return T.NaiveLinear(F, orthogonal_initialization=o["orth"])
    if cls == "LULinear":
        return T.LULinear(F, identity_init=o["identity_init"])
    if cls == "QRLinear":
        return T.QRLinear(F, num_householder=o["householder"])
    if cls == "SVDLinear":
        return T.SVDLinear(F, num_householder=o["householder"], identity_init=o["identity_init"])
    if cls == "HouseholderSequence":
        return T.HouseholderSequence(F, num_transforms=o["householder"])
    raise ValueError(cls)


def cell_of(c):
    cls, F, o = c["cls"], c["F"], c["opt"]
    if "householder" in o:
        k = o["householder"]
        rel = "k<=F" if k <= F else ("F<k<=2F" if k <= 2 * F else "k>2F")
        return "%s,%s" % ("odd" if k % 2 else "even", rel)
    if cls == "NaiveLinear":
        return "orthogonal_init" if o["orth"] else "uniform_init"
    if cls == "LULinear":
        return "identity_init" if o["identity_init"] else "random_init"
    return "default"


def check_case(c, pname, dname, seed):
    out = []
    V = lambda sym, msg: out.append((cell_of(c), sym, msg))
    cls, F = c["cls"], c["F"]
    dtype = DT[dname]
    if cls == "random_orthogonal":
        try:
            with torch.random.fork_rng():
                torch.manual_seed(seed)
                q = torchutils.random_orthogonal(F)
        except Exception as e:
            V("raises %s" % type(e).__name__, "utils.random_orthogonal(%d) raised %s: %s" % (F, type(e).__name__, str(e)[:100]))
            return out
        if q.shape != (F, F) or float((q.t() @ q - torch.eye(F)).abs().max()) > 1e-5:
            V("not orthogonal", "random_orthogonal(%d): Q^T Q differs from I by %.3g" % (F, float((q.t() @ q - torch.eye(F)).abs().max())))
        return out
    try:
        with torch.random.fork_rng():
            torch.manual_seed(100 + seed)
            m = construct(c)
    except (TypeError, ValueError, AssertionError):
        return None  # rejected by an explicit argument check: outside the enumerated space
    except Exception as e:
        V("constructor raises %s" % type(e).__name__, "%s(%d, %s) raised %s: %s" % (cls, F, c["opt"], type(e).__name__, str(e)[:120]))
        return out
    if pname != "init":
        fill(m, ("pat", {"pat1": 0, "pat3": 1, "patT": 0, "patG": 0, "patE": 0}[pname] + 2 * (seed % 3), {"pat1": 1.0, "pat3": 3.0, "patT": 1.0, "patG": 1.0, "patE": 1.0}[pname]))
        if pname == "patT":
            # reflections are invariant under rescaling of their vectors: tiny (and huge) vectors must give the same orthogonal map
            with torch.no_grad():
                k = 0
                for n_, p_ in m.named_parameters():
                    if n_.endswith("q_vectors"):
                        p_.mul_(1e-4 if k % 2 == 0 else 1e4)
                        k += 1
        if cls == "NaiveLinear":
            with torch.no_grad():
                m._weight.add_(2.0 * torch.eye(F))
    if pname == "patE":
        # one extreme but legal unconstrained diagonal entry (100): the positive diagonal is softplus(100) + eps = 100, finite and
        # invertible; a naive log1p(exp(.)) overflows in float32
        with torch.no_grad():
            for n_, p_ in m.named_parameters():
                if n_.endswith(("unconstrained_diagonal", "unconstrained_upper_diag")) and p_.numel():
                    p_.view(-1)[0] = 100.0
    m = m.to(dtype).eval()
    if pname == "patG":
        # the same well-conditioned map times a global factor (weight and bias): det W leaves the dtype's range for F >= 6 while
        # log|det W| and the map itself are harmless
        big = (seed + F) % 2 == 0
        g = (1e7 if big else 1e-8) if dtype == torch.float32 else (1e60 if big else 1e-60)
        with torch.no_grad():
            m._weight.mul_(g)
            m.bias.mul_(g)
    for n, p in m.named_parameters():
        if not torch.isfinite(p).all():
            V("non-finite parameter after construction", "%s(%d, %s): parameter %s contains %s" % (cls, F, c["opt"], n, p.flatten().tolist()[:6]))
            return out
    x = pat_tensor((3, F), 3, 1.3, dtype=dtype)
    eye = torch.eye(F, dtype=dtype)
    tolb = 1e-10 if dtype == torch.float64 else 2e-4

    def close(a, b, cond=1.0):
        if a.shape != b.shape:
            return False
        return bool(torch.isfinite(a).all()) and float((a - b).abs().max()) <= tolb * cond * max(1.0, float(b.abs().max()))

    with torch.no_grad():
        try:
            if cls == "HouseholderSequence":
                Q = m.matrix()
                y, ld = m(x)
                xi, ldi = m.inverse(y)
                if not torch.isfinite(Q).all():
                    V("non-finite matrix", "matrix() contains non-finite entries")
                    return out
                if not close(Q @ Q.t(), eye):
                    V("not orthogonal", "matrix() matrix()^T differs from I by %.3g" % float((Q @ Q.t() - eye).abs().max()))
                if not close(y, x @ Q.t()):
                    V("forward is not x -> matrix() x", "forward(x) differs from x matrix()^T by %.3g" % float((y - x @ Q.t()).abs().max()))
                if not close(xi, x):
                    V("inverse does not undo forward", "inverse(forward(x)) differs from x by %.3g" % float((xi - x).abs().max()))
                if float(ld.abs().max()) != 0 or float(ldi.abs().max()) != 0:
                    V("logabsdet not zero", "orthogonal transform returned logabsdet %s" % ld.tolist())
                return out
            W = m.weight()
            Wi = m.weight_inverse()
            lad = m.logabsdet()
            W2, lad2 = m.weight_and_logabsdet()
            Wi3, lad3 = m.weight_inverse_and_logabsdet()
            y, ld = m(x)
            xi, ldi = m.inverse(y)
        except Exception as e:
            V("accessor raises %s" % type(e).__name__, "%s(%d, %s) %s: %s: %s" % (cls, F, c["opt"], dname, type(e).__name__, str(e)[:120]))
            return out
    if not (torch.isfinite(W).all() and torch.isfinite(Wi).all() and torch.isfinite(lad)):
        V("non-finite accessor", "weight()/weight_inverse()/logabsdet() not finite")
        return out
    Wd = W.detach().double()
    cond = float(np.linalg.cond(Wd.numpy()))
    if not np.isfinite(cond) or cond > 1e8:
        if pname != "init":
            return "skip-ill-conditioned-pattern"  # usability is claimed for the initialisation modes, not for arbitrary weights
        V("not invertible", "as constructed, weight() has condition number %.3g" % cond)
        return out
    if dtype == torch.float32 and cond > 1e3:
        return "skip-ill-conditioned-float32"  # single precision is only claimed for moderate magnitudes (C19)
    b = m.bias.detach()
    if not close(y, x @ W.t() + b, cond):
        V("forward is not x -> W x + b", "forward(x) differs from x weight()^T + bias by %.3g" % float((y - (x @ W.t() + b)).abs().max()))
    if not close(W @ Wi, eye, cond):
        V("weight_inverse() is not the inverse of weight()", "weight() weight_inverse() differs from I by %.3g (cond %.3g)" % (float((W @ Wi - eye).abs().max()), cond))
    sl = float(torch.linalg.slogdet(Wd)[1])
    tl = (1e-10 if dtype == torch.float64 else 2e-4) * max(1.0, abs(sl)) * max(1.0, np.log10(cond) + 1)
    if abs(float(lad) - sl) > tl:
        V("logabsdet() is not log|det weight()|", "logabsdet() = %.10g, slogdet(weight()) = %.10g" % (float(lad), sl))
    if not close(W2, W, cond) or abs(float(lad2) - sl) > tl:
        V("weight_and_logabsdet() disagrees", "weight_and_logabsdet(): weight diff %.3g, logabsdet %.10g vs %.10g" % (float((W2 - W).abs().max()), float(lad2), sl))
    if not close(Wi3, Wi, cond * cond) or abs(float(lad3) - sl) > tl:
        V("weight_inverse_and_logabsdet() disagrees", "weight_inverse_and_logabsdet(): inverse diff %.3g, logabsdet %.10g vs log|det W| %.10g" % (float((Wi3 - Wi).abs().max()), float(lad3), sl))
    if not close(xi, x, cond):
        V("inverse does not undo forward", "inverse(forward(x)) differs from x by %.3g" % float((xi - x).abs().max()))
    if not close((y - b) @ Wi.t(), x, cond):
        V("inverse pass disagrees with weight_inverse()", "(y - b) weight_inverse()^T differs from x by %.3g" % float(((y - b) @ Wi.t() - x).abs().max()))
    if abs(float(ld[0]) - sl) > tl or abs(float(ldi[0]) + sl) > tl:
        V("forward/inverse logabsdet disagrees with logabsdet()", "forward %.10g, inverse %.10g, log|det W| %.10g" % (float(ld[0]), float(ldi[0]), sl))
    return out


def units(tier, seed):
    cs = list(cases(tier, seed))
    n = 16
    return [(cs[i::n], seed) for i in range(n)]


def run_unit(unit):
    cs, seed = unit
    res = new_result()
    for c in cs:
        pats = ("init",) if c["cls"] == "random_orthogonal" else (("init", "pat1", "pat3", "patT", "patE") if c["cls"] == "SVDLinear" else (("init", "pat1", "pat3", "patE") if c["cls"] == "LULinear" else None)) or (("init", "pat1", "pat3", "patT") if "householder" in c["opt"] else (("init", "pat1", "pat3", "patG") if c["cls"] == "NaiveLinear" else ("init", "pat1", "pat3")))
        for pname in pats:
            for dname in DT:
                vs = check_case(c, pname, dname, seed)
                if vs is None:
                    bump(res["skipped"], "rejected by explicit argument check")
                    continue
                if isinstance(vs, str):
                    bump(res["skipped"], vs)
                    continue
                res["evaluations"] += 1
                res["states"] += 1
                res["transitions"] += 9
                res["traces"] += 1
                if c["F"] >= 2 or c["opt"].get("householder", 2) != 2:
                    res["nontrivial"] += 1
                bump(res["outcomes"], "%s:%s" % (c["cls"], "violation" if vs else "ok"))
                for cell, sym, msg in vs:
                    res["violations"].append({"key": "%s|%s|%s" % (c["cls"], cell, sym), "case": {"c": c, "pattern": pname, "dtype": dname, "seed": seed}, "msg": "%s F=%d %s pattern=%s %s: %s" % (c["cls"], c["F"], c["opt"], pname, dname, msg)})
        if not res["samples"]:
            res["samples"].append(c)
    return res


def replay(case):
    vs = check_case(case["c"], case["pattern"], case["dtype"], case["seed"]) or []
    if isinstance(vs, str):
        vs = []
    return [{"key": "%s|%s|%s" % (case["c"]["cls"], cell, sym), "case": case, "msg": msg} for cell, sym, msg in vs]
