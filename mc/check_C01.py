"""C01 -- forward log-abs-det equals log|det Jacobian| of the map actually computed (E1 product explorer).

subject x configuration (<=k deviations) x parameter pattern x deviation-bounded input rows; the
returned log-det is compared with an independently obtained float64 finite-difference Jacobian of
the real forward (Richardson central; second-order one-sided stencils at kinks and end-points).
"""
import numpy as np
import torch

from mc import catalog as C
from mc import common
from mc.common import bump, new_result, violation
from mc.harness import Caller, build_case, dev_signature, knots_for
from mc.numerics import fd_jacobians, logabsdet, rows_1dev, rows_2dev

PROPERTY = "C01"
RULE = (
    "subjects = every Transform class of the library + the 4 bare spline functions with non-default boxes + wrapper programs; "
    "configurations = all with <=1 (quick) / <=2 (thorough) deviations from the default constructor arguments; parameter patterns "
    "{init, zero, pat1, pat3}; rows = base row + every coordinate swept through its cell alphabet (interior, far, special points "
    "and ulp neighbours, knots and ulp neighbours, bin mid-points, end-points) with the others at base (thorough adds 2-deviation rows). "
    "A case (subject,config,pattern,row) is non-trivial when the finite-difference log|det J| differs from 0 by more than 1e-9 "
    "or the row contains a non-interior cell."
)
ASSUMPTIONS = [
    "float64 finite differences (step 2e-5 relative, Richardson) certify the log-det to 1e-6*D; smaller errors are out of reach",
    "at a kink (two step sizes or the two one-sided stencils disagree) the returned value may be anywhere between the one-sided values",
    "models are evaluated in eval mode in float64; batch-size-1 re-evaluation before any report (batch mixing belongs to C12)",
    "UMNN with the default ReLU integrand and 20 quadrature steps is checked with the declared loose tolerance 2e-2; tight with the smooth integrand",
    "finite parameter and input alphabets",
]


def bounds(tier, seed):
    return {"config_deviations": 1 if tier == "quick" else 2, "patterns": "init, zero, pat1, pat3 (per subject)", "rows": "1-deviation" + (" + 2-deviation (cap 400 per case)" if tier == "thorough" else ""),
            "subjects": len(C.SUBJECTS), "seed_selects": "pattern phase index %d and base-row phase" % (seed % 3)}


def ld_tolerance(s, cfg, D):
    t = 1e-6 * max(D, 1) + s.ld_tol
    if s.kind == "umnn":
        # declared approximation: the map is an nb_steps-point Clenshaw-Curtis quadrature of the integrand over [0, x]
        # while the returned log-det is the integrand itself; the gap grows with |x| (alphabet reaches |x| = 6)
        t += 1.0 if cfg.get("integrand") == "relu" else 5e-2
        if cfg.get("nb_steps", 60) < 60:
            t += 1.0 if cfg.get("integrand") == "relu" else 5e-2
    return t


def check_row(s, cfg, m, row, tag, call=None):
    """returns (list[(cellclass, symptom, msg)], info)"""
    call = call or Caller(s, cfg, m)
    D = call.D
    dom = s.cell_domain(cfg)
    x = np.asarray(row, dtype=np.float64)
    out = []
    info = {"nontrivial": tag not in ("base", "interior"), "kink": False, "calls": 0}
    try:
        y1, ld1, _ = call.fwd(x[None])
    except Exception as e:
        out.append((tag, "forward raises %s" % type(e).__name__, "forward raised %s: %s at in-domain row %s" % (type(e).__name__, str(e)[:120], x.tolist())))
        return out, info
    L = float(ld1[0])
    if not np.isfinite(L) or not np.all(np.isfinite(y1)):
        out.append((tag, "non-finite forward result", "forward returned non-finite values at in-domain row %s: logabsdet=%r" % (x.tolist(), L)))
        return out, info

    def f(X):
        try:
            return call.fwd(X)[0]
        except Exception:
            # a stencil point failed as a batch: evaluate rows one by one, failed ones become NaN
            rows = []
            for r in X:
                try:
                    rows.append(call.fwd(r[None])[0][0])
                except Exception:
                    rows.append(np.full(D, np.nan))
            return np.stack(rows)

    # finite differences are trusted only where two step sizes agree (ladder 2e-5, 5e-6, 1.25e-6)
    last_fd = {}

    def lds(h):
        fd = fd_jacobians(f, x, dom, h_rel=h)
        if not all(np.all(np.isfinite(fd[k])) for k in ("Jc", "Jl", "Jr")):
            return None
        last_fd["fd"] = fd
        return tuple(logabsdet(fd[k]) for k in ("Jc", "Jl", "Jr"))

    def agree(u, v):
        return np.isfinite(u) and np.isfinite(v) and abs(u - v) <= 2e-7 * D + 1e-7 * abs(u)

    tol = ld_tolerance(s, cfg, D) + 3e-7 * abs(L)
    prev = lds(2e-5)
    got = None
    for h in (5e-6, 1.25e-6):
        cur = lds(h)
        if prev is not None and cur is not None and agree(prev[1], cur[1]) and agree(prev[2], cur[2]):
            got = cur
            break
        prev = cur
    if got is None:
        info["skip"] = "fd-unresolved (step sizes disagree)"
        return out, info
    ld_c, ld_l, ld_r = got
    if abs(ld_c) > 1e-9:
        info["nontrivial"] = True
    fd = last_fd.get("fd")
    Jl, Jr = fd["Jl"], fd["Jr"]
    scale_ = max(1.0, float(np.max(np.abs(Jl))))
    # kinked coordinates: the two one-sided derivative columns differ (decided per column, not on the determinants,
    # which can agree by symmetry when two coordinates sit on mirror-image kinks)
    kc = [i for i in range(D) if np.max(np.abs(Jl[:, i] - Jr[:, i])) > 1e-6 * scale_]
    central_agrees = np.isfinite(ld_c) and abs(ld_c - 0.5 * (ld_l + ld_r)) <= 1e-6
    smooth = not kc and np.isfinite(ld_l) and np.isfinite(ld_r)
    if smooth:
        # both one-sided 4th-order limits agree column by column: the derivative is continuous here (C1 knots included);
        # the central stencil is only used when it agrees (it straddles the knot otherwise)
        ref = ld_c if central_agrees else 0.5 * (ld_l + ld_r)
        ld_c = ref
        ok = abs(L - ref) <= tol + 2 * abs(ld_l - ld_r)
    else:
        info["kink"] = True
        cands = [v for v in (ld_l, ld_r) if np.isfinite(v)]
        # every mix of one-sided columns over the kinked coordinates is a legitimate derivative
        if 2 <= len(kc) <= 6:
            import itertools as _it

            for choice in _it.product((0, 1), repeat=len(kc)):
                J = Jl.copy()
                for i, ch in zip(kc, choice):
                    if ch:
                        J[:, i] = Jr[:, i]
                v = logabsdet(J)
                if np.isfinite(v):
                    cands.append(v)
        elif len(kc) > 6:
            info["skip"] = "more than 6 kinked coordinates"
            return out, info
        if not cands:
            info["skip"] = "singular-fd"
            return out, info
        slack = 10 * tol + 1e-3 * (max(cands) - min(cands))
        ok = min(cands) - slack <= L <= max(cands) + slack
    if not ok:
        # re-establish with batch size 1 before blaming this property (C12 owns batch mixing)
        def f1(X):
            return np.stack([call.fwd(r[None])[0][0] for r in X])

        try:
            fd1 = fd_jacobians(f1, x, dom, h_rel=5e-6)
            l1 = 0.5 * (logabsdet(fd1["Jl"]) + logabsdet(fd1["Jr"]))
            if smooth and abs(L - l1) <= tol:
                info["skip"] = "batch-dependent (left to C12)"
                return out, info
        except Exception:
            pass
        if smooth:
            msg = "returned logabsdet %.9g but log|det J| = %.9g by finite differences (diff %.3g, tol %.2g) at row %s" % (L, ld_c, L - ld_c, tol, x.tolist())
        else:
            msg = "returned logabsdet %.9g outside the one-sided range [%.9g, %.9g] at kink row %s" % (L, min(cands), max(cands), x.tolist())
        out.append((tag, "logdet mismatch", msg))
    return out, info


def run_case(sname, cfg, pname, seed, tier, res=None, only_row=None):
    """explore all rows of one (subject, config, pattern); returns list of violation dicts"""
    vio = []
    try:
        s, m = build_case(sname, cfg, pname, seed)
    except Exception as e:
        if res is not None:
            bump(res["skipped"], "cannot-construct (C11's subject): %s" % type(e).__name__)
        return vio
    call = Caller(s, cfg, m)
    D = call.D
    if only_row is not None:
        rows = [(np.asarray(only_row["row"]), only_row["tag"], only_row.get("coord", -1))]
    else:
        kn = knots_for(s, m, cfg, pname, seed)
        rows = rows_1dev(D, s.cell_domain(cfg), s.specials(cfg), kn, tier, j=seed)
        if tier == "thorough":
            rows += rows_2dev(D, s.cell_domain(cfg), s.specials(cfg), kn, j=seed)
    sig = dev_signature(s, cfg)
    base_syms = set()
    for row, tag, coord in rows:
        vs, info = check_row(s, cfg, m, row, tag, call)
        if tag == "base":
            base_syms = {sym for _, sym, _ in vs}
        else:
            vs = [("base" if sym in base_syms else cell, sym, msg) for cell, sym, msg in vs]
        if res is not None:
            res["evaluations"] += 1
            res["states"] += 1
            res["traces"] += 1
            if info.get("nontrivial"):
                res["nontrivial"] += 1
            if info.get("skip"):
                bump(res["skipped"], info["skip"])
            bump(res["outcomes"], "%s:%s:%s" % (s.kind, "kink" if info.get("kink") else "smooth", "violation" if vs else "ok"))
        for cell, sym, msg in vs:
            case = {"subject": sname, "cfg": cfg, "pattern": pname, "seed": seed, "row": [float(v) for v in row], "tag": tag, "coord": coord}
            vio.append({"key": "%s|%s|%s|%s" % (sname, sig, cell.split("+")[0], sym), "case": case, "msg": "%s cfg=%s pattern=%s: %s" % (sname, cfg, pname, msg)})
    if res is not None:
        res["transitions"] += call.calls
        if not res["samples"] and rows:
            res["samples"].append({"subject": sname, "cfg": cfg, "pattern": pname, "row": [float(v) for v in rows[min(3, len(rows) - 1)][0]], "tag": rows[min(3, len(rows) - 1)][1]})
    return vio


def units(tier, seed):
    k = 1 if tier == "quick" else 2
    us = []
    for name, s in C.SUBJECTS.items():
        for cfg in C.enum_configs(s, k):
            us.append((name, cfg, tier, seed))
    return us


def run_unit(unit):
    name, cfg, tier, seed = unit
    res = new_result()
    s = C.SUBJECTS[name]
    for pname in s.patterns:
        for v in run_case(name, cfg, pname, seed, tier, res):
            res["violations"].append(v)
    return res


def replay(case):
    return run_case(case["subject"], case["cfg"], case["pattern"], case["seed"], "quick", None, only_row=case)
