"""C07 -- coupling layers leave identity features untouched and condition only on them (E1 product explorer).

Every non-trivial mask for 2..5 features x coupling class x (<=1 deviation over) {mask encoding,
2-D/image, context, unconditional transform} x direction; monitors: bitwise comparison of the
identity positions, a forward pre-hook on the conditioner (it cannot depend on what it is not
given: decides 'parameters depend only on identity features and context' for ALL weights), bitwise
non-interference between transformed coordinates, strict monotonicity in the own input.
"""
import itertools

import numpy as np
import torch

from mc import catalog as C
from mc.common import bump, new_result
from mc.params import fill, pat_tensor

PROPERTY = "C07"
RULE = (
    "7 coupling classes x feature counts 2..5 (UMNN: 2..3) x EVERY non-trivial subset as mask (2^n - 2) in the default encoding; for 3 features additionally every mask x "
    "encodings {0/1 ints, -1/+1 floats, -2.5/0.5 floats, uint8 tensor, tuple, float tensor, numpy array; tensor and array masks are flipped in place after construction} and (<=1 deviation) {image inputs, context, unconditional transform, box spline without tails, conv/residual conditioners with dropout or batch-norm, MLP conditioner, general scale activation}; "
    "both directions; parameter pattern pat1 (conditioner outputs capped), init, and the conditioner's last bias at -300 / +300; every call under its own RNG state. Non-trivial = every case (the mask has both kinds of features by construction)."
)
ASSUMPTIONS = [
    "mask semantics as documented: entry > 0 = transformed, <= 0 = identity (the check derives the index sets from the mask values itself, not from the module's buffers)",
    "bitwise equality (torch.equal) for identity features and conditioner inputs; non-interference between transformed coordinates to 1e-12*scale (vector-kernel rounding); with an unconditional transform identity outputs must be an elementwise function of themselves",
    "monotonicity is decided on a 7-point sorted alphabet per transformed coordinate (inside and outside the tails)",
]

CLASSES = ["AdditiveCouplingTransform", "AffineCouplingTransform", "PiecewiseLinearCouplingTransform", "PiecewiseQuadraticCouplingTransform", "PiecewiseCubicCouplingTransform",
           "PiecewiseRationalQuadraticCouplingTransform", "UMNNCouplingTransform"]
ENC = ["int01", "pm1", "float_mixed", "uint8", "tuple", "float_tensor", "numpy"]


def bounds(tier, seed):
    return {"features": [2, 3, 4, 5], "masks": "all 2^n-2 non-trivial subsets", "encodings": ENC, "deviation_axes": ["dims=4d", "context", "uncond", "box (no tails)"]}


def encode(bits, enc):
    if enc == "int01":
        return [int(b) for b in bits]
    if enc == "pm1":
        return [1.0 if b else -1.0 for b in bits]
    if enc == "float_mixed":
        return [0.5 if b else (-2.5 if i % 2 else 0.0) for i, b in enumerate(bits)]
    if enc == "uint8":
        return torch.tensor([int(b) for b in bits], dtype=torch.uint8)
    if enc == "tuple":
        return tuple(int(b) for b in bits)
    if enc == "float_tensor":
        return torch.tensor([1.0 if b else -1.0 for b in bits])
    if enc == "numpy":
        return np.array([1 if b else 0 for b in bits], dtype=np.int64)
    raise ValueError(enc)


def make_cfg(cls, bits, enc, dev):
    s = C.SUBJECTS[cls]
    cfg = dict(s.default())
    cfg["mask"] = encode(bits, enc)
    if "tb" in cfg:
        cfg["tb"] = 2.5
    if "integrand" in cfg:
        cfg.update(nb_steps=20)
    if dev in ("4d", "4d_do", "4d_bn"):
        cfg["dims"] = dev
    elif dev in ("net_do", "net_mlp", "net_bn"):
        cfg["net"] = {"net_do": "resnet_do", "net_mlp": "mlp", "net_bn": "resnet_bn"}[dev]
    elif dev == "general" and "scale_act" in cfg:
        cfg["scale_act"] = "general"
    elif dev == "context":
        cfg["context"] = True
    elif dev == "uncond" and "uncond" in cfg:
        cfg["uncond"] = True
    elif dev == "box" and "tb" in cfg:
        cfg["tb"] = None
    return cfg


def bits_equal(a, b):
    """bit-for-bit equality (distinguishes -0.0 from +0.0, treats identical NaN payloads as equal)"""
    return a.shape == b.shape and a.dtype == b.dtype and torch.equal(a.contiguous().view(torch.int64), b.contiguous().view(torch.int64))


def check_case(case):
    cls, bits, enc, dev, pname, seed = case["cls"], case["bits"], case["enc"], case["dev"], case["pattern"], case["seed"]
    s = C.SUBJECTS[cls]
    cfg = make_cfg(cls, bits, enc, dev)
    out = []
    V = lambda cell, sym, msg: out.append((cell, sym, msg))
    n = len(bits)
    ident = [i for i, b in enumerate(bits) if not b]
    trans = [i for i, b in enumerate(bits) if b]
    try:
        with torch.random.fork_rng():
            torch.manual_seed(3000 + seed)
            m = s.build(cfg)
        if len(m.identity_features) != len(ident) or len(m.transform_features) != len(trans):
            V("construct", "mask misinterpreted", "mask %r: layer has %d identity / %d transformed features, the documented rule (entry > 0 = transformed) gives %d / %d" % (cfg["mask"], len(m.identity_features), len(m.transform_features), len(ident), len(trans)))
            return out
        pat = C.pattern_for("init" if pname in ("biasneg", "biaspos") else pname, seed)
        fill(m, pat)
        if pat[0] == "pat":
            C.cap_conditioner(s, {**cfg, "mask": [int(b) for b in bits]}, m)
        if pname in ("biasneg", "biaspos"):
            # an extreme but legal conditioner: its last layer's bias at -300 / +300 (every unconstrained scale, width, height and
            # derivative far out): the activation floors / caps have to keep each transformed feature strictly monotone
            net = m.transform_net
            last = getattr(net, "final_layer", None)
            if last is None and hasattr(net, "net"):
                last = getattr(net.net, "_output_layer", None)
            if last is None or last.bias is None:
                return out
            with torch.no_grad():
                last.bias.fill_(-300.0 if pname == "biasneg" else 300.0)
    except Exception as e:
        V("construct", "constructor raises %s" % type(e).__name__, "mask %r: %s: %s" % (cfg["mask"], type(e).__name__, str(e)[:120]))
        return out
    m = m.double().eval()
    shape = (n,) if cfg["dims"] == "2d" else (n, 2, 1)
    box = cfg.get("tb", 1.0) is None and "tb" in cfg
    B = 2
    if box:
        x = 0.5 + 0.4 * pat_tensor((B,) + shape, 2 + seed, 1.0)
    else:
        x = pat_tensor((B,) + shape, 2 + seed, 1.6)
    if not box and ident:
        x[0, ident[0], ...] = -0.0  # bit-for-bit includes the sign of zero
    cs = s.ctx_shape({**cfg, "mask": [int(b) for b in bits]})
    ctx = None if cs is None else pat_tensor((B,) + cs, 5, 0.7)
    uncond = bool(cfg.get("uncond"))
    seen = []
    h = m.transform_net.register_forward_pre_hook(lambda mod, args: seen.append(args))

    ncall = [0]

    def _reseed():
        # every call sees a different global RNG state: a layer that draws random numbers in evaluation mode (dropout left
        # on) then no longer computes a function of the identity features and the context alone
        ncall[0] += 1
        torch.manual_seed(9000 + ncall[0])

    def fwd(t):
        _reseed()
        with torch.no_grad():
            return m(t, ctx) if ctx is not None else m(t)

    def inv(t):
        _reseed()
        with torch.no_grad():
            return m.inverse(t, ctx) if ctx is not None else m.inverse(t)

    try:
        y, ld = fwd(x)
    except Exception as e:
        h.remove()
        V("forward", "raises %s" % type(e).__name__, "forward raised %s: %s" % (type(e).__name__, str(e)[:100]))
        return out
    # the mask is read at construction: editing the caller's mask object afterwards (as SimpleRealNVP does with `mask *= -1`
    # between its layers) must not re-mask the layer that was already built
    mobj = cfg["mask"]
    if isinstance(mobj, (torch.Tensor, np.ndarray)):
        if isinstance(mobj, torch.Tensor) and mobj.dtype == torch.uint8:
            mobj.copy_(1 - mobj)
        else:
            mobj *= -1
            if isinstance(mobj, np.ndarray):
                mobj += 1  # 0/1 -> 1/0
        try:
            y_b, ld_b = fwd(x)
            if not (bits_equal(y_b, y) and bits_equal(ld_b, ld)):
                V("construct", "layer follows later edits of the caller's mask object", "mask %r given as %s: after flipping the caller's mask object in place, forward changed by %.3g" % (encode(bits, enc) if enc != "numpy" else bits, enc, float((y_b - y).abs().max())))
        except Exception as e:
            V("construct", "layer follows later edits of the caller's mask object", "after flipping the caller's mask object in place forward raised %s" % type(e).__name__)
        if out:
            h.remove()
            return out
        seen.clear()
        y, ld = fwd(x)
    # (b) the conditioner saw exactly the identity features (and the context)
    def seen_ok(args, ref_ident, label):
        if len(args) < 1 or args[0].shape != ref_ident.shape or not torch.equal(args[0], ref_ident):
            V(label, "conditioner received something other than the identity features", "%s: conditioner input %s, identity features %s" % (label, args[0].flatten().tolist()[:6] if len(args) else None, ref_ident.flatten().tolist()[:6]))
            return
        rest = [a for a in args[1:] if a is not None]
        if ctx is None and rest:
            V(label, "conditioner received extra inputs", "%s: %d extra positional inputs without context" % (label, len(rest)))
        if ctx is not None and (len(rest) != 1 or not torch.equal(rest[0], ctx)):
            V(label, "conditioner context differs from the given context", "%s: context passed to the conditioner differs" % label)

    if len(seen) != 1:
        V("forward", "conditioner called %d times" % len(seen), "forward called the conditioner %d times" % len(seen))
    else:
        seen_ok(seen[0], x[:, ident, ...], "forward")
    # (a) identity features bit-for-bit
    if not uncond:
        if not bits_equal(y[:, ident, ...], x[:, ident, ...]):
            V("forward", "identity features modified", "forward changed identity features %s: %s -> %s" % (ident, x[:, ident, ...].flatten().tolist()[:4], y[:, ident, ...].flatten().tolist()[:4]))
    else:
        # elementwise function of themselves: perturb one identity element, the other identity outputs must not move
        for i in ident:
            x2 = x.clone()
            x2[:, i, ...] = x2[:, i, ...] * 0.5 + 0.05
            y2, _ = fwd(x2)
            others = [k for k in ident if k != i]
            if others and not torch.equal(y2[:, others, ...], y[:, others, ...]):
                V("forward", "unconditional transform mixes identity features", "changing identity feature %d changed other identity outputs" % i)
                break
    if y.shape != x.shape:
        V("forward", "output shape", "forward output shape %s for input %s" % (tuple(y.shape), tuple(x.shape)))
    # (c) non-interference between transformed coordinates + strict monotonicity in the own input
    alpha = [0.02, 0.2, 0.41, 0.6, 0.77, 0.9, 0.99] if box else [-3.0, -1.2, -0.2, 0.3, 1.1, 2.2, 2.9]
    for j in trans:
        prev = None
        for a in alpha:
            x2 = x.clone()
            x2[:, j, ...] = a
            y2, _ = fwd(x2)
            rest = [k for k in range(n) if k != j]
            # identity outputs: bitwise; other transformed outputs: up to vector-kernel rounding (the boolean-mask
            # gather of the tail splines changes the length of the vectorised softmax/cumsum, which moves results by an ulp)
            if not uncond and not torch.equal(y2[:, ident, ...], y[:, ident, ...]):
                V("forward", "transformed coordinate influences identity outputs", "changing transformed feature %d to %r changed identity outputs" % (j, a))
                break
            dmax = float((y2[:, rest, ...] - y[:, rest, ...]).abs().max())
            if dmax > 1e-12 * max(1.0, float(y.abs().max())):
                V("forward", "transformed coordinate influences other outputs", "changing transformed feature %d to %r changed outputs of other features by %.3g" % (j, a, dmax))
                break
            cur = y2[:, j, ...]
            if prev is not None and not bool((cur > prev).all()):
                V("forward", "transformed output not strictly increasing in its own input", "feature %d: output at %r is %s, at the previous smaller input %s" % (j, a, cur.flatten().tolist()[:3], prev.flatten().tolist()[:3]))
                break
            prev = cur
    # inverse direction
    seen.clear()
    try:
        xr, ldi = inv(y)
    except Exception as e:
        h.remove()
        V("inverse", "raises %s" % type(e).__name__, "inverse(forward(x)) raised %s: %s" % (type(e).__name__, str(e)[:100]))
        return out
    if not uncond:
        if not bits_equal(xr[:, ident, ...], y[:, ident, ...]):
            V("inverse", "identity features modified", "inverse changed identity features %s" % ident)
        if seen:
            seen_ok(seen[0], y[:, ident, ...], "inverse")
    else:
        if seen and not (seen[0][0].shape == x[:, ident, ...].shape and float((seen[0][0] - x[:, ident, ...]).abs().max()) <= 1e-6):
            V("inverse", "conditioner received something other than the identity features", "inverse with unconditional transform: the conditioner must see the un-transformed identity features (those forward conditioned on); max difference %.3g" % float((seen[0][0] - x[:, ident, ...]).abs().max()) if seen[0][0].shape == x[:, ident, ...].shape else "inverse: conditioner input shape %s" % (tuple(seen[0][0].shape),))
    if not seen:
        V("inverse", "conditioner not called", "inverse did not call the conditioner")
    for j in trans[:2]:
        y2 = y.clone()
        y2[:, j, ...] = y2[:, j, ...] + (0.01 if not box else 0.0)
        if box:
            y2[:, j, ...] = (y2[:, j, ...] * 0.9 + 0.05)
        try:
            x2, _ = inv(y2)
        except Exception:
            continue
        rest = [k for k in range(n) if k != j]
        if float((x2[:, rest, ...] - xr[:, rest, ...]).abs().max()) > 1e-12 * max(1.0, float(xr.abs().max())):
            V("inverse", "transformed coordinate influences other outputs", "inverse: changing transformed feature %d changed other features by %.3g" % (j, float((x2[:, rest, ...] - xr[:, rest, ...]).abs().max())))
            break
    h.remove()
    return out


def all_masks(n):
    for bits in itertools.product((0, 1), repeat=n):
        if 0 < sum(bits) < n:
            yield list(bits)


def gen_cases(cls, tier, seed):
    ns = [2, 3] if cls == "UMNNCouplingTransform" else [2, 3, 4, 5]
    pats = ["pat1", "init"] if cls != "UMNNCouplingTransform" else ["pat1"]
    for n in ns:
        for bits in all_masks(n):
            for pname in pats:
                yield {"cls": cls, "bits": bits, "enc": "int01", "dev": "none", "pattern": pname, "seed": seed}
    for bits in all_masks(3):
        if cls != "UMNNCouplingTransform":
            for dev in ("none", "general"):
                if dev == "general" and "scale_act" not in C.SUBJECTS[cls].axes:
                    continue
                for pname in ("biasneg", "biaspos"):
                    yield {"cls": cls, "bits": bits, "enc": "int01", "dev": dev, "pattern": pname, "seed": seed}
        for enc in ENC[1:]:
            yield {"cls": cls, "bits": bits, "enc": enc, "dev": "none", "pattern": "pat1", "seed": seed}
        for dev in ("4d", "context", "uncond", "box", "4d_do", "4d_bn", "net_do", "net_mlp", "net_bn"):
            s = C.SUBJECTS[cls]
            if dev.startswith("4d_") and dev not in s.axes.get("dims", []):
                continue
            if dev.startswith("net_") and {"net_do": "resnet_do", "net_mlp": "mlp", "net_bn": "resnet_bn"}[dev] not in s.axes.get("net", []):
                continue
            if dev == "uncond" and "uncond" not in s.axes:
                continue
            if dev == "box" and "tb" not in s.axes:
                continue
            if dev == "uncond" and cls == "UMNNCouplingTransform":
                continue  # constructor-accepted but always raises: recorded under C01/C02
            yield {"cls": cls, "bits": bits, "enc": "int01", "dev": dev, "pattern": "pat1", "seed": seed}
    if tier == "thorough":
        # full product: every mask x every encoding x every deviation
        for n in ns:
            for bits in all_masks(n):
                for dev in ("none", "4d", "context", "uncond", "box"):
                    s = C.SUBJECTS[cls]
                    if (dev == "uncond" and ("uncond" not in s.axes or cls == "UMNNCouplingTransform")) or (dev == "box" and "tb" not in s.axes):
                        continue
                    for enc in ENC:
                        if n == 3 and (dev == "none" or enc == "int01"):
                            continue  # already enumerated above
                        if dev == "none" and enc == "int01":
                            continue
                        yield {"cls": cls, "bits": bits, "enc": enc, "dev": dev, "pattern": "pat1", "seed": seed}


def units(tier, seed):
    us = []
    for cls in CLASSES:
        cases = list(gen_cases(cls, tier, seed))
        k = 4 if cls != "UMNNCouplingTransform" else 8
        for i in range(k):
            us.append((cls, tier, seed, i, k))
    return us


def run_unit(unit):
    cls, tier, seed, i, k = unit
    res = new_result()
    for case in list(gen_cases(cls, tier, seed))[i::k]:
        try:
            vs = check_case(case)
        except Exception as e:
            vs = [("harness", "case raised %s" % type(e).__name__, str(e)[:200])]
        res["evaluations"] += 1
        res["states"] += 1
        res["transitions"] += 2 + 7 * sum(case["bits"])
        res["traces"] += 1
        res["nontrivial"] += 1
        bump(res["outcomes"], "%s:%s:%s:%s" % (cls, case["enc"], case["dev"], "violation" if vs else "ok"))
        for cell, sym, msg in vs:
            res["violations"].append({"key": "%s|%s,%s|%s|%s" % (cls, case["enc"], case["dev"], cell, sym), "case": case, "msg": "%s mask=%s enc=%s %s pattern=%s: %s" % (cls, case["bits"], case["enc"], case["dev"], case["pattern"], msg)})
        if not res["samples"]:
            res["samples"].append(case)
    return res


def replay(case):
    return [{"key": "%s|%s,%s|%s|%s" % (case["cls"], case["enc"], case["dev"], cell, sym), "case": case, "msg": msg} for cell, sym, msg in check_case(case)]
