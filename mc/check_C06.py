"""C06 -- MADE conditioners are strictly autoregressive for every architecture and weight (E1, structural).

Model: the input->output dependency relation is the boolean reachability of the layer graph built
from the *registered mask buffers* (this decides the property for ALL weight values, since every
weight enters only multiplied by its mask entry).  Conformance of the model to the code, per
architecture: (a) with witness weights (all +1, strictly increasing activation) the non-zero pattern
of the autograd Jacobian of the REAL forward equals the reachability relation exactly; (b) for the
enumerated weight patterns the outputs of block f are identical when inputs >= f are replaced.
Random masks: every answer of torch.randint is enumerated through a seam (stateless replay of the
constructor over the choice tree, sorted degree vectors per layer).
"""
import itertools
from unittest import mock

import numpy as np
import torch
from torch.nn import functional as F

from mc.common import bump, new_result
from mc.params import fill, pat_tensor
from nflows.nn.nde import made as made_nde
from nflows.transforms import made as made_tr

PROPERTY = "C06"
RULE = (
    "both MADE copies (transforms/made.py, nn/nde/made.py incl. MixtureOfGaussiansMADE): features 1..4 (thorough 5) x hidden 1..6 x blocks 0..2 x {residual, feed-forward} x "
    "context {none, 2} x output multiplier 1..3 x batch-norm {off, on} (eval and train, dropout 0 / 0.5 in train), plus wide networks (300 features x 320 hidden, 257 x 16; mask graph and Jacobian pattern only); random masks: EVERY torch.randint answer (sorted degree "
    "vectors per layer; cap per architecture reported) for feed-forward nets. Per architecture: reachability model from the mask buffers, witness-weight Jacobian pattern of the "
    "real forward, and invariance of block f under replacement of inputs >= f for 2 weight patterns x 2 modes. Non-trivial = features >= 2 (some dependency is allowed and some forbidden)."
)
ASSUMPTIONS = [
    "hidden units of one feed-forward layer are exchangeable, so only sorted random degree vectors are enumerated (merged networks are isomorphic: identical input->output dependency)",
    "witness weights make every path contribute positively, so the autograd Jacobian's non-zero pattern equals graph reachability; autograd is trusted to report structural zeros exactly",
    "output unit o belongs to feature o // output_multiplier (feature-major layout, as consumed by view(-1, features, multiplier) / reshape(..., K, 3))",
]


def bounds(tier, seed):
    return {"features": [1, 2, 3, 4] + ([5] if tier == "thorough" else []), "hidden": [1, 2, 3, 4, 5, 6], "blocks": [0, 1, 2], "multiplier": [1, 2, 3], "random_mask_cap_per_architecture": 300 if tier == "quick" else 3000}


_CLS_BASE = {}


def _reset_class_state():
    """class-level containers of the MADE building blocks (a memo of masks, say) are state shared by all networks of a process:
    every construction starts from what they held when first looked at, so that a finding does not depend on what was built before"""
    import copy as _copy
    import inspect

    for mod_ in (made_tr, made_nde):
        for cname, cls in inspect.getmembers(mod_, inspect.isclass):
            if cls.__module__ != mod_.__name__:
                continue
            for k, v in list(vars(cls).items()):
                if k.startswith("__") or not isinstance(v, (dict, list, set)):
                    continue
                key = (mod_.__name__, cname, k)
                if key not in _CLS_BASE:
                    _CLS_BASE[key] = _copy.deepcopy(v)
                    continue
                base = _CLS_BASE[key]
                if isinstance(v, dict):
                    v.clear()
                    v.update(_copy.deepcopy(base))
                elif isinstance(v, list):
                    v[:] = _copy.deepcopy(base)
                else:
                    v.clear()
                    v.update(_copy.deepcopy(base))


def build(copy, a, activation=F.relu):
    _reset_class_state()
    mod = made_tr if copy == "transforms" else made_nde
    kw = dict(features=a["F"], hidden_features=a["H"], context_features=2 if a["ctx"] else None, num_blocks=a["blocks"], use_residual_blocks=a["residual"], random_mask=a["random"],
              activation=activation, dropout_probability=a.get("dropout", 0.0), use_batch_norm=a["bn"])
    if copy == "mog":
        return made_nde.MixtureOfGaussiansMADE(num_mixture_components=a["mult"], custom_initialization=False, **kw)
    return mod.MADE(output_multiplier=a["mult"], **kw)


def multisets(low, high, n):
    return [tuple(c) for c in itertools.combinations_with_replacement(range(low, high), n)]


def enumerate_builds(copy, a, cap, activation=F.relu):
    """yield (choices, model) for every leaf of the randint choice tree (DFS with stateless replay)"""
    if not a["random"]:
        yield (), build(copy, a, activation)
        return
    stack = [[]]
    count = 0
    while stack:
        prefix = stack.pop()
        log = []

        def fake_randint(low=0, high=None, size=None, dtype=None, **kw):
            n = size[0] if isinstance(size, (list, tuple)) else int(size)
            opts = multisets(int(low), int(high), n)
            i = len(log)
            ch = prefix[i] if i < len(prefix) else 0
            log.append((ch, len(opts)))
            return torch.tensor(opts[ch], dtype=torch.long)

        with mock.patch.object(torch, "randint", fake_randint):
            m = build(copy, a, activation)
        choices = [c for c, _ in log]
        for i in range(len(prefix), len(log)):
            for alt in range(1, log[i][1]):
                stack.append(choices[:i] + [alt])
        count += 1
        yield tuple(choices), m
        if count >= cap:
            yield "CAP", None
            return


def reach_model(m, a, mult):
    """boolean [F*mult, F] reachability from the registered mask buffers"""
    def B(t):
        return t.detach().cpu().numpy() != 0

    R = B(m.initial_layer.mask)  # [H, F]
    for blk in m.blocks:
        if hasattr(blk, "linear_layers"):
            M = (B(blk.linear_layers[1].mask).astype(int) @ B(blk.linear_layers[0].mask).astype(int)) > 0
            M = M | np.eye(M.shape[0], dtype=bool)  # residual add = union with the identity
        else:
            M = B(blk.linear.mask)
        R = (M.astype(int) @ R.astype(int)) > 0
    R = (B(m.final_layer.mask).astype(int) @ R.astype(int)) > 0
    return R


def witness(m):
    with torch.no_grad():
        for n, p in m.named_parameters():
            if "batch_norm" in n:
                p.fill_(1.0) if n.endswith("weight") else p.zero_()
            elif n.endswith("weight"):
                p.fill_(1.0)
            else:
                p.zero_()
    return m


def check_arch(copy, a, m, choices):
    """returns list[(cell, symptom, msg)]"""
    out = []
    Fd, mult = a["F"], (3 * a["mult"] if copy == "mog" else a["mult"])
    R = reach_model(m, a, mult)
    tag = "random" if a["random"] else ("residual" if a["residual"] else "feedforward")
    # model property: block of feature f reaches only inputs < f
    for o in range(R.shape[0]):
        f = o // mult
        if R[o, f:].any():
            out.append((tag, "mask graph not autoregressive", "output unit %d (feature %d) reaches inputs %s through the registered masks" % (o, f, [int(i) for i in np.where(R[o])[0] if i >= f])))
            break
    # (a) conformance: witness weights, real forward, autograd Jacobian pattern == reachability
    mw = witness(m).double().eval()
    x = pat_tensor((1, Fd), 2, 0.7).requires_grad_(True)
    ctx = pat_tensor((1, 2), 3, 0.5) if a["ctx"] else None
    J = torch.autograd.functional.jacobian(lambda t: mw(t, ctx)[0] if ctx is not None else mw(t)[0], x)[:, 0, :].numpy()
    if J.shape != R.shape:
        out.append((tag, "output layout", "real forward has %d outputs, model %d" % (J.shape[0], R.shape[0])))
        return out
    P = J != 0
    if (P != R).any():
        o, i = [int(v) for v in np.argwhere(P != R)[0]]
        kind = "depends on an input the masks exclude" if P[o, i] else "does not depend on an input the masks allow"
        out.append((tag, "real forward disagrees with the mask graph", "witness weights: output %d (feature %d) %s (input %d); Jacobian pattern row %s, mask reachability %s" % (o, o // mult, kind, i, P[o].astype(int).tolist(), R[o].astype(int).tolist())))
    for o in range(P.shape[0]):
        f = o // mult
        if P[o, f:].any():
            out.append((tag, "output depends on its own or a later input", "witness weights: d out[%d] (feature %d) / d x[%d] != 0" % (o, f, int(np.where(P[o, f:])[0][0]) + f)))
            break
    return out


def check_invariance(copy, a, choices_list, seed):
    """(b) enumerated weight patterns x modes: block f is unchanged when inputs >= f are replaced"""
    out = []
    Fd, mult = a["F"], (3 * a["mult"] if copy == "mog" else a["mult"])
    for pattern in (("init",), ("pat", seed % 3, 3.0)):
        for train in (False, True):
            aa = dict(a, dropout=0.5 if train else 0.0)
            with torch.random.fork_rng():
                torch.manual_seed(11)
                if a["random"]:
                    opts_log = []

                    def fake(low=0, high=None, size=None, dtype=None, **kw):
                        n = size[0] if isinstance(size, (list, tuple)) else int(size)
                        opts = multisets(int(low), int(high), n)
                        i = len(opts_log)
                        ch = choices_list[i] if i < len(choices_list) else 0
                        opts_log.append(ch)
                        return torch.tensor(opts[ch], dtype=torch.long)

                    with mock.patch.object(torch, "randint", fake):
                        m = build(copy, aa)
                else:
                    m = build(copy, aa)
            fill(m, pattern)
            m = m.double()
            m.train(train)
            B = 3
            x = pat_tensor((B, Fd), 2, 0.9)
            ctx = pat_tensor((B, 2), 3, 0.5) if a["ctx"] else None

            def run(inp):
                torch.manual_seed(5)  # same dropout masks
                with torch.no_grad():
                    return m(inp, ctx) if ctx is not None else m(inp)

            y0 = run(x)
            for f in range(Fd):
                x2 = x.clone()
                x2[:, f:] = pat_tensor((B, Fd - f), 4, 5.0) + 3.0
                if train and a["bn"]:
                    # restore running statistics side effects do not matter for outputs in train mode
                    pass
                y2 = run(x2)
                blk0 = y0[:, f * mult : (f + 1) * mult]
                blk2 = y2[:, f * mult : (f + 1) * mult]
                if not torch.equal(blk0, blk2):
                    out.append(("random" if a["random"] else ("residual" if a["residual"] else "feedforward"), "block changes when later inputs change",
                                "%s weights, %s mode: outputs of feature %d change by %.3g when inputs %d.. are replaced" % (pattern[0], "train" if train else "eval", f, float((blk0 - blk2).abs().max()), f)))
                    return out
    return out


def archs(tier):
    feats = [1, 2, 3, 4] + ([5] if tier == "thorough" else [])
    for Fd in feats:
        for H in (1, 2, 3, 4, 5, 6):
            yield Fd, H
    # wide networks (flattened images): degrees beyond 255 / 256 (a narrow integer type for the degree bookkeeping wraps around)
    yield 300, 320
    yield 257, 16


def units(tier, seed):
    us = []
    for copy in ("transforms", "nde", "mog"):
        for Fd, H in archs(tier):
            us.append((copy, Fd, H, tier, seed))
    return us


def arch_list(copy, Fd, H, tier):
    if Fd >= 100:
        for blocks, residual in ((1, True), (2, False), (0, False)):
            yield {"F": Fd, "H": H, "blocks": blocks, "residual": residual, "ctx": False, "mult": 1 if copy != "nde" else 2, "bn": False, "random": False}
        return
    mults = (1, 2, 3) if copy != "mog" else (1, 2)
    for blocks in (0, 1, 2):
        for residual in (True, False):
            for ctx in (False, True):
                for mult in mults:
                    for bn in (False, True):
                        yield {"F": Fd, "H": H, "blocks": blocks, "residual": residual, "ctx": ctx, "mult": mult, "bn": bn, "random": False}
        # random masks (feed-forward only)
        for mult in mults[:2]:
            yield {"F": Fd, "H": H, "blocks": blocks, "residual": False, "ctx": False, "mult": mult, "bn": False, "random": True}
        # residual blocks with random masks: the library refuses to build them (a skip connection needs non-decreasing degrees);
        # if a tree accepts the combination, the network it builds has to be autoregressive like any other
        if blocks >= 1 and Fd >= 2:
            yield {"F": Fd, "H": H, "blocks": blocks, "residual": True, "ctx": False, "mult": 1, "bn": False, "random": True}


def run_arch(copy, a, tier, seed, res=None, only_choices=None):
    vio = []
    cap = 300 if tier == "quick" else 3000
    first = True
    try:
        gen = enumerate_builds(copy, a, cap, activation=F.softplus)
        for choices, m in gen:
            if choices == "CAP":
                if res is not None:
                    res["caps"].append("random-mask draws capped at %d for %s %s" % (cap, copy, {k: a[k] for k in ("F", "H", "blocks", "mult")}))
                break
            if only_choices is not None and list(choices) != list(only_choices):
                continue
            vs = check_arch(copy, a, m, choices)
            if (first or vs) and a["F"] < 100:
                vs += check_invariance(copy, a, list(choices), seed)
                first = False
            if res is not None:
                res["evaluations"] += 1
                res["states"] += 1
                res["transitions"] += 2
                res["traces"] += 1
                if a["F"] >= 2:
                    res["nontrivial"] += 1
                bump(res["outcomes"], "%s:%s:%s" % (copy, "random" if a["random"] else ("residual" if a["residual"] else "ff"), "violation" if vs else "ok"))
            for cell, sym, msg in vs:
                vio.append({"key": "MADE[%s]|%s|%s" % (copy, cell, sym), "case": {"copy": copy, "arch": a, "choices": list(choices), "seed": seed}, "msg": "MADE(%s) %s randint answers %s: %s" % (copy, a, list(choices), msg)})
    except Exception as e:
        if a["residual"] and a["random"] and isinstance(e, (ValueError, AssertionError)):
            if res is not None:
                bump(res["outcomes"], "%s:residual+random:rejected by the constructor" % copy)
            return vio
        vio.append({"key": "MADE[%s]|construct|raises %s" % (copy, type(e).__name__), "case": {"copy": copy, "arch": a, "choices": [], "seed": seed}, "msg": "MADE(%s) %s: %s: %s" % (copy, a, type(e).__name__, str(e)[:120])})
    return vio


def run_unit(unit):
    copy, Fd, H, tier, seed = unit
    res = new_result()
    for a in arch_list(copy, Fd, H, tier):
        res["violations"].extend(run_arch(copy, a, tier, seed, res))
        if not res["samples"] and a["random"]:
            res["samples"].append({"copy": copy, "arch": a})
    return res


def replay(case):
    return run_arch(case["copy"], case["arch"], "thorough", case["seed"], None, only_choices=case["choices"] if case["arch"]["random"] else None)
