"""C19 -- single precision agrees with double precision and stays finite (E1 product explorer).

float32 model vs a float64 twin with identical (float32-representable) parameters on identical
float32-representable inputs; the float32 result must be finite, must not raise where the twin
does not, must carry dtype float32 (the twin's float64) and must be mixed forward-backward
accurate: within c*eps32*(1+|y|) plus the twin's own variation over a 64*eps32 neighbourhood of x.
"""
import copy

import numpy as np
import torch

from mc import catalog as C
from mc import dcatalog as DC
from mc.common import bump, new_result
from mc.harness import Caller, dev_signature, knots_for
from mc.numerics import rows_1dev
from mc.params import pat_tensor
from nflows import transforms as T

PROPERTY = "C19"
RULE = (
    "subject x config (<=1 deviation; thorough <=2) x pattern x 1-deviation rows of the C01/C02 cell alphabets rounded to float32, "
    "forward direction on the input alphabet and inverse direction on the float32-rounded twin images; flows: log_prob rows; plus wide (32-96 feature) linear/normalisation/autoregressive layers; plus the data-dependent first training-mode call "
    "of ActNorm (2-D, image) and BatchNorm on batches offset + spread*pattern for 5 (offset, spread) pairs up to 50 +- 0.01, followed by eval forward and inverse; "
    "plus conversion after use (a model already called in one precision, deep-copied and converted, must equal the twin converted before any call, bit for bit and in dtype). "
    "Non-trivial = the float64 twin result differs from the float32 result (rounding visible) or the row has a non-interior cell."
)
ASSUMPTIONS = [
    "accuracy band: 2^10*eps32*(1+|y|) + 4*sup|y64(x')-y64(x)| over the stencil {x +- d e_i, x +- d 1}, d = 64*eps32*max(1,|x|,box width) (measured conditioning, outputs and log-dets separately)",
    "the twin is a deep copy taken before any call and converted with .double(); parameters are float32-representable in both",
    "moderate magnitudes only: the parameter patterns and the row alphabets of C01 (|x| <= 6 or the tail bound region)",
    "UMNN subjects: the float32 quadrature/bisection is judged with an additional 1e-3 band (declared approximation)",
]

EPS = float(np.finfo(np.float32).eps)


def bounds(tier, seed):
    return {"config_deviations": 1 if tier == "quick" else 2, "c": 2 ** 10, "delta": "64*eps32*scale"}


def f32(x):
    return np.asarray(x, dtype=np.float32).astype(np.float64)


def check_dir(s, cfg, c32, c64, x, tag, direction, dom):
    out = []
    info = {"nontrivial": tag not in ("base", "interior")}
    fn32 = c32.fwd if direction == "forward" else c32.inv
    fn64 = c64.fwd if direction == "forward" else c64.inv
    try:
        y64, l64, raw64 = fn64(x[None])
    except Exception:
        info["skip"] = "twin raises (other properties)"
        return out, info
    if not (np.all(np.isfinite(y64)) and np.all(np.isfinite(l64))):
        info["skip"] = "twin non-finite (other properties)"
        return out, info
    if raw64[0].dtype != torch.float64 or raw64[1].dtype != torch.float64:
        out.append((tag, "result dtype differs from input dtype (float64 in)", "%s with float64 inputs returned outputs %s / logabsdet %s" % (direction, raw64[0].dtype, raw64[1].dtype)))
    try:
        y32, l32, raw32 = fn32(x[None])
    except Exception as e:
        out.append((tag, "float32 raises %s" % type(e).__name__, "%s in float32 raised %s: %s at row %s (float64 twin returns finite values)" % (direction, type(e).__name__, str(e)[:100], x.tolist())))
        return out, info
    if raw32[0].dtype != torch.float32 or raw32[1].dtype != torch.float32:
        out.append((tag, "result dtype differs from input dtype (float32 in)", "%s with float32 inputs returned outputs %s / logabsdet %s" % (direction, raw32[0].dtype, raw32[1].dtype)))
    if not (np.all(np.isfinite(y32)) and np.all(np.isfinite(l32))):
        out.append((tag, "float32 non-finite", "%s in float32 returned non-finite values at row %s: %s logabsdet %s (float64: %s, %s)" % (direction, x.tolist(), y32[0].tolist(), l32.tolist(), y64[0].tolist(), l64.tolist())))
        return out, info
    dy = np.abs(y32[0] - y64[0])
    dl = abs(float(l32[0] - l64[0]))
    if dy.max() > 0 or dl > 0:
        info["nontrivial"] = True
    lo, hi = dom
    width = (hi - lo) if (lo is not None and hi is not None) else 1.0
    delta = 64 * EPS * max(1.0, float(np.max(np.abs(x))), width)
    D = x.size
    pts = []
    for i in range(D):
        for sgn in (1.0, -1.0):
            p = x.copy()
            p[i] += sgn * delta
            pts.append(p)
    pts.append(x + delta)
    pts.append(x - delta)
    P = np.stack(pts)
    if lo is not None:
        P = np.maximum(P, lo)
    if hi is not None:
        P = np.minimum(P, hi)
    try:
        ys, ls, _ = fn64(P)
        vy = float(np.max(np.abs(ys - y64[0]))) if np.all(np.isfinite(ys)) else float("inf")
        vl = float(np.max(np.abs(ls - l64[0]))) if np.all(np.isfinite(ls)) else float("inf")
    except Exception:
        vy = vl = float("inf")
    if not np.isfinite(vy) or not np.isfinite(vl):
        info["skip"] = "twin stencil not evaluable"
        return out, info
    c = 2 ** 10 * EPS
    extra = 1e-3 if s.kind == "umnn" else 0.0
    if "Cubic" in s.name or s.name == "splinefn_cubic":
        # declared approximation of the cubic inverse (quadratic_threshold=1e-3, eps=1e-5, both relative to the box), also visible in float32 root finding
        extra = 2e-2 * max(1.0, 0.5 * width, float(cfg.get("tb") or 0.0))
    by = c * (1 + float(np.max(np.abs(y64)))) + 4 * vy + extra
    bl = c * (1 + abs(float(l64[0]))) * max(1, D) ** 0.5 + 4 * vl + extra
    if dy.max() > by:
        out.append((tag, "float32 outputs inaccurate", "%s: float32 outputs differ from float64 by %.3g (band %.3g, measured variation %.3g) at row %s" % (direction, dy.max(), by, vy, x.tolist())))
    if dl > bl:
        out.append((tag, "float32 logabsdet inaccurate", "%s: float32 logabsdet %.8g vs float64 %.8g (diff %.3g, band %.3g, measured variation %.3g) at row %s" % (direction, float(l32[0]), float(l64[0]), dl, bl, vl, x.tolist())))
    return out, info


def run_case(sname, cfg, pname, seed, tier, res=None, only=None):
    vio = []
    s = C.SUBJECTS[sname]
    try:
        m32 = C.materialise(s, cfg, pname, seed, dtype=torch.float32)
        if cfg.get("_wide"):
            # wide layer with uniformly small / large per-dimension scales (each of moderate size: 0.05 resp. 3.5)
            v = {"small": -3.0, "large": 3.5}[cfg["_wide"]]
            with torch.no_grad():
                for n_, p_ in m32.named_parameters():
                    if any(t in n_ for t in ("unconstrained_upper_diag", "unconstrained_diagonal", "log_upper_diag", "log_scale", "unconstrained_weight")):
                        p_.fill_(v if "log_" not in n_ else (v if v < 0 else 1.25))
                    if n_ == "_weight" and sname == "NaiveLinear":
                        p_.mul_(0.05 if v < 0 else 3.5)  # orthogonal matrix times a moderate factor: the determinant itself leaves the float32 range
        m64 = copy.deepcopy(m32).double()
    except Exception as e:
        if res is not None:
            bump(res["skipped"], "cannot-construct (C11's subject): %s" % type(e).__name__)
        return vio
    c32, c64 = Caller(s, cfg, m32, dtype=torch.float32), Caller(s, cfg, m64, dtype=torch.float64)
    D = c32.D
    dom = s.moderate_domain(cfg)
    if only:
        jobs = [(np.asarray(only["row"]), only["tag"], only["direction"])]
    else:
        kn = knots_for(s, m64, cfg, pname, seed)
        xr = rows_1dev(D, dom, s.specials(cfg), kn, tier, j=seed)
        jobs = []
        for r, t, _ in xr:
            x = f32(r)
            if dom[0] is not None:
                x = np.maximum(x, f32(np.nextafter(np.float32(dom[0]), np.float32(np.inf))) if s.margin else dom[0])
            if dom[1] is not None:
                x = np.minimum(x, f32(np.nextafter(np.float32(dom[1]), np.float32(-np.inf))) if s.margin else dom[1])
            jobs.append((x, t, "forward"))
            if s.has_inverse:
                try:
                    y = f32(c64.fwd(x[None])[0][0])
                    cod = s.cell_codomain(cfg)
                    if cod[0] is not None:
                        y = np.maximum(y, cod[0])
                    if cod[1] is not None:
                        y = np.minimum(y, cod[1])
                    jobs.append((y, t, "inverse"))
                except Exception:
                    pass
    sig = dev_signature(s, cfg)
    base_syms = set()
    for x, tag, direction in jobs:
        vs, info = check_dir(s, cfg, c32, c64, x, tag, direction, dom if direction == "forward" else s.cell_codomain(cfg))
        if tag == "base":
            base_syms |= {sym for _, sym, _ in vs}
        else:
            vs = [("base" if sym in base_syms else cell, sym, msg) for cell, sym, msg in vs]
        if res is not None:
            res["evaluations"] += 1
            res["states"] += 1
            res["traces"] += 1
            if info.get("nontrivial"):
                res["nontrivial"] += 1
            if info.get("skip"):
                bump(res["skipped"], info["skip"])
            bump(res["outcomes"], "%s:%s:%s" % (s.kind, direction, "violation" if vs else "ok"))
        for cell, sym, msg in vs:
            vio.append({"key": "%s|%s|%s|%s" % (sname, sig, cell, sym), "case": {"subject": sname, "cfg": cfg, "pattern": pname, "seed": seed, "row": [float(v) for v in x], "tag": tag, "direction": direction},
                        "msg": "%s cfg=%s pattern=%s: %s" % (sname, cfg, pname, msg)})
    if not only and jobs:
        # conversion after use: a model that has already been called in float32 is deep-copied and converted with .double(); the copy
        # must behave exactly like the twin that was converted before any call (no value or dtype remembered from the float32 calls),
        # and the float64 twin converted back with .float() exactly like the float32 model
        x0 = jobs[0][0]
        try:
            late64 = Caller(s, cfg, copy.deepcopy(m32).double(), dtype=torch.float64)
            late32 = Caller(s, cfg, copy.deepcopy(m64).float(), dtype=torch.float32)
            for late, ref, dt, what in ((late64, c64, torch.float64, "float32 calls, then .double()"), (late32, c32, torch.float32, "float64 calls, then .float()")):
                ya, la, rawa = ref.fwd(x0[None])
                yb, lb, rawb = late.fwd(x0[None])
                bad = None
                if rawb[0].dtype != dt or rawb[1].dtype != dt:
                    bad = "returns outputs %s / logabsdet %s" % (rawb[0].dtype, rawb[1].dtype)
                elif not (np.array_equal(ya, yb, equal_nan=True) and np.array_equal(la, lb, equal_nan=True)):
                    bad = "differs from the model converted before any call by %.3g (outputs) / %.3g (logabsdet)" % (float(np.max(np.abs(ya - yb))), float(np.max(np.abs(la - lb))))
                if res is not None:
                    res["evaluations"] += 1
                    res["states"] += 1
                    res["traces"] += 1
                    bump(res["outcomes"], "%s:convert-after-use:%s" % (s.kind, "violation" if bad else "ok"))
                if bad:
                    vio.append({"key": "%s|%s|convert-after-use|result remembers the precision of earlier calls" % (sname, sig), "case": {"subject": sname, "cfg": cfg, "pattern": pname, "seed": seed, "row": [float(v) for v in x0], "tag": "convert", "direction": "forward"},
                                "msg": "%s cfg=%s pattern=%s: after %s the forward pass %s" % (sname, cfg, pname, what, bad)})
        except Exception as e:
            if res is not None:
                bump(res["skipped"], "convert-after-use not evaluable: %s" % type(e).__name__)
    if res is not None:
        res["transitions"] += c32.calls + c64.calls
        if not res["samples"] and jobs:
            j = jobs[min(4, len(jobs) - 1)]
            res["samples"].append({"subject": sname, "cfg": cfg, "pattern": pname, "row": [float(v) for v in j[0]], "tag": j[1], "direction": j[2]})
    return vio


def run_flow_case(dname, cfg, pname, seed, tier, res=None):
    """flows / distributions: log_prob in float32 vs float64 twin"""
    vio = []
    d = DC.DSUBJECTS[dname]
    try:
        o32 = DC.materialise(d, cfg, "pat1" if pname == "narrow" else pname, seed, dtype=torch.float32)
        if pname == "narrow":
            # sharp mixture components (std about 0.05): ordinary inputs sit tens of standard deviations from every mean, so the
            # component densities underflow in float32 unless the mixture is summed in log space
            with torch.no_grad():
                o32._made.final_layer.bias[2::3] = -3.0
        o64 = copy.deepcopy(o32).double()
    except Exception as e:
        if res is not None:
            bump(res["skipped"], "cannot-construct: %s" % type(e).__name__)
        return vio
    X = d.points(cfg, 4, seed, dtype=torch.float32)
    CT = d.contexts(cfg, 4, seed, dtype=torch.float32)
    sig = DC.dev_signature(d, cfg)
    for i in range(4):
        x, c = X[i : i + 1], None if CT is None else CT[i : i + 1]
        if res is not None:
            res["evaluations"] += 1
            res["states"] += 1
            res["traces"] += 1
            res["transitions"] += 2
        try:
            with torch.no_grad():
                l64 = o64.log_prob(x.double(), context=None if c is None else c.double())
        except Exception:
            if res is not None:
                bump(res["skipped"], "twin raises (other properties)")
            continue
        sym = None
        try:
            with torch.no_grad():
                l32 = o32.log_prob(x, context=c)
        except Exception as e:
            sym, msg = "float32 raises %s" % type(e).__name__, "log_prob in float32 raised %s: %s" % (type(e).__name__, str(e)[:100])
        else:
            if l32.dtype != torch.float32 or l64.dtype != torch.float64:
                sym, msg = "result dtype differs from input dtype", "log_prob dtypes: float32 in -> %s, float64 in -> %s" % (l32.dtype, l64.dtype)
            elif not torch.isfinite(l32).all():
                sym, msg = "float32 non-finite", "log_prob in float32 = %s (float64 %s)" % (l32.tolist(), l64.tolist())
            else:
                diff = abs(float(l32[0]) - float(l64[0]))
                if diff > 0 and res is not None:
                    res["nontrivial"] += 1
                # variation of the twin under 64 eps32 perturbations of x
                delta = 64 * EPS * max(1.0, float(x.abs().max()))
                with torch.no_grad():
                    va = max(abs(float(o64.log_prob(x.double() + sg * delta, context=None if c is None else c.double())[0]) - float(l64[0])) for sg in (1.0, -1.0))
                band = 2 ** 10 * EPS * (1 + abs(float(l64[0]))) * 2 + 4 * va
                if diff > band:
                    sym, msg = "float32 log_prob inaccurate", "float32 log_prob %.8g vs float64 %.8g (diff %.3g, band %.3g)" % (float(l32[0]), float(l64[0]), diff, band)
        if res is not None:
            bump(res["outcomes"], "dist:log_prob:%s" % ("violation" if sym else "ok"))
        if sym:
            vio.append({"key": "%s|%s|log_prob|%s" % (dname, sig, sym), "case": {"dist": dname, "cfg": cfg, "pattern": pname, "seed": seed, "row_index": i}, "msg": "%s cfg=%s pattern=%s: %s" % (dname, cfg, pname, msg)})
    return vio


NORM_DATA = [(0.0, 1.0), (-3.0, 0.5), (20.0, 1.0), (20.0, 0.02), (50.0, 0.01)]  # (offset, spread) of the batch fed to the first training-mode call
NORM_LAYERS = [("ActNorm", (3,)), ("ActNorm", (2, 2, 3)), ("ActNorm", (1, 1, 4)), ("BatchNorm", (3,)), ("BatchNorm", (1,))]


def _norm_build(layer, shape):
    torch.manual_seed(0)
    return T.ActNorm(shape[0]) if layer == "ActNorm" else T.BatchNorm(shape[0])


def run_norm_train_case(layer, shape, offset, spread, seed, res=None):
    """the data-dependent first call in training mode (ActNorm initialisation, BatchNorm batch statistics): variance formulas are
    cancellation-prone when the batch mean is large against its spread; float32 against a float64 twin fed the same float32 numbers"""
    import copy
    vio = []
    B = 6 if len(shape) == 1 else 3
    xp = offset + spread * pat_tensor((B,) + tuple(shape), 3 + seed, 1.0, dtype=torch.float64)
    x32 = xp.float()
    x64 = x32.double()
    m32 = _norm_build(layer, shape)
    fresh64 = copy.deepcopy(m32).double()
    m64 = copy.deepcopy(fresh64)
    m32.train(); m64.train()
    key = "%s|train-first-call,shape=%s|offset=%g,spread=%g" % (layer, "x".join(map(str, shape)), offset, spread)
    case = {"norm": layer, "shape": list(shape), "offset": offset, "spread": spread, "seed": seed}

    def v(sym, msg):
        vio.append({"key": key + "|" + sym, "case": case, "msg": "%s shape %s, batch of %d rows = %g + %g*pattern: %s" % (layer, list(shape), B, offset, spread, msg)})

    delta = 64 * EPS * max(1.0, float(x64.abs().max()))
    mean = x64.mean(dim=0, keepdim=True) if len(shape) == 1 else x64.mean(dim=(0, 2, 3), keepdim=True)
    perts = [torch.full_like(x64, delta), torch.full_like(x64, -delta), delta * torch.sign(x64 - mean), -delta * torch.sign(x64 - mean),
             delta * torch.sign(pat_tensor(tuple(x64.shape), 11, 1.0, dtype=torch.float64)), -delta * torch.sign(pat_tensor(tuple(x64.shape), 11, 1.0, dtype=torch.float64))]
    for phase in ("train", "eval", "eval-inverse"):
        try:
            with torch.no_grad():
                if phase == "train":
                    y64, l64 = m64(x64)
                elif phase == "eval":
                    m64.eval()
                    y64, l64 = m64(x64)
                else:
                    y64, l64 = m64.inverse(y64keep)
        except Exception:
            if res is not None:
                bump(res["skipped"], "twin raises (other properties)")
            return vio
        if phase == "train":
            y64keep = y64
        if res is not None:
            res["evaluations"] += 1
            res["states"] += 1
            res["transitions"] += 1
            res["traces"] += 1
            res["nontrivial"] += 1
        try:
            with torch.no_grad():
                if phase == "train":
                    y32, l32 = m32(x32)
                elif phase == "eval":
                    m32.eval()
                    y32, l32 = m32(x32)
                else:
                    y32, l32 = m32.inverse(y64keep.float())
        except Exception as e:
            v("float32 raises %s" % type(e).__name__, "%s call in float32 raised %s: %s (the float64 twin returns finite values)" % (phase, type(e).__name__, str(e)[:100]))
            break
        if y32.dtype != torch.float32 or l32.dtype != torch.float32:
            v("result dtype differs from input dtype (float32 in)", "%s call returned %s / %s" % (phase, y32.dtype, l32.dtype))
        if y64.dtype != torch.float64 or l64.dtype != torch.float64:
            v("result dtype differs from input dtype (float64 in)", "%s call returned %s / %s" % (phase, y64.dtype, l64.dtype))
        if not (bool(torch.isfinite(y32).all()) and bool(torch.isfinite(l32).all())):
            v("float32 non-finite", "%s call returned non-finite values in float32 (float64 twin finite)" % phase)
            break
        # measured conditioning: the float64 twin (fresh copy, same history) on batches perturbed by 64 float32 ulps
        vy = vl = 0.0
        for pt in perts:
            mp = copy.deepcopy(fresh64)
            mp.train()
            with torch.no_grad():
                yp, lp = mp(x64 + pt)
                if phase != "train":
                    mp.eval()
                    yp, lp = mp(x64 + pt) if phase == "eval" else mp.inverse(y64keep + pt * float(y64keep.abs().max() + 1) / max(1.0, float(x64.abs().max())))
            vy = max(vy, float((yp - y64).abs().max()))
            vl = max(vl, float((lp - l64).abs().max()))
        c = 2 ** 10 * EPS
        D = int(np.prod(shape))
        by = c * (1 + float(y64.abs().max())) + 4 * vy
        bl = c * (1 + float(l64.abs().max())) * max(1, D) ** 0.5 + 4 * vl
        dy = float((y32.double() - y64).abs().max())
        dl = float((l32.double() - l64).abs().max())
        if res is not None:
            bump(res["outcomes"], "norm-train:%s:%s" % (phase, "violation" if (dy > by or dl > bl) else "ok"))
        if dy > by:
            v("float32 outputs inaccurate", "%s call: float32 outputs differ from float64 by %.3g (band %.3g, measured variation %.3g)" % (phase, dy, by, vy))
        if dl > bl:
            v("float32 logabsdet inaccurate", "%s call: float32 logabsdet differs from float64 by %.3g (band %.3g, measured variation %.3g)" % (phase, dl, bl, vl))
    return vio


def units(tier, seed):
    k = 1 if tier == "quick" else 2
    us = [("t", name, cfg, tier, seed) for name, s in C.SUBJECTS.items() for cfg in C.enum_configs(s, k)]
    us += [("d", name, cfg, tier, seed) for name, d in DC.DSUBJECTS.items() if d.torch_tensor_api for cfg in DC.enum_configs(d, k)]
    # wide layers: products/sums over ~100 factors are where float32 range and accumulation errors show up
    for name, over in (("NaiveLinear", {"features": 96, "orth": True}), ("LULinear", {"features": 96}), ("QRLinear", {"features": 96}), ("SVDLinear", {"features": 96}), ("OneByOneConvolution", {"channels": 48}),
                       ("ActNorm", {"features": 96}), ("BatchNorm", {"features": 96}), ("MaskedAffineAutoregressiveTransform", {"features": 32, "hidden": 16})):
        for wide in ("small", "large"):
            cfg = dict(C.SUBJECTS[name].default())
            cfg.update(over)
            cfg["_wide"] = wide
            us.append(("t", name, cfg, tier, seed))
    us += [("n", layer, {"shape": list(shape), "offset": o, "spread": sp}, tier, seed) for layer, shape in NORM_LAYERS for o, sp in NORM_DATA]
    return us


def run_unit(unit):
    kind, name, cfg, tier, seed = unit
    res = new_result()
    if kind == "n":
        res["violations"].extend(run_norm_train_case(name, tuple(cfg["shape"]), cfg["offset"], cfg["spread"], seed, res))
        return res
    if kind == "t":
        pats = C.SUBJECTS[name].patterns if not cfg.get("_wide") else ("init", "patS")
        for pname in pats:
            res["violations"].extend(run_case(name, cfg, pname, seed, tier, res))
    else:
        for pname in tuple(DC.DSUBJECTS[name].patterns) + (("narrow",) if name == "MADEMoG" else ()):
            res["violations"].extend(run_flow_case(name, cfg, pname, seed, tier, res))
    return res


def replay(case):
    if "norm" in case:
        return run_norm_train_case(case["norm"], tuple(case["shape"]), case["offset"], case["spread"], case["seed"], None)
    if "dist" in case:
        return [v for v in run_flow_case(case["dist"], case["cfg"], case["pattern"], case["seed"], "quick", None) if v["case"]["row_index"] == case["row_index"]]
    if case.get("tag") == "convert":
        # needs the float32 calls made before the conversion: re-run the whole case and keep this finding
        return [v for v in run_case(case["subject"], case["cfg"], case["pattern"], case["seed"], "quick", None) if v["case"].get("tag") == "convert"]
    return run_case(case["subject"], case["cfg"], case["pattern"], case["seed"], "quick", None, only=case)
