#!/usr/bin/env python3
"""usage: mut_summary.py <PID> -- one line per mutant from /tmp/mut/results/<PID>_m*.{verify,check}.json"""
import glob, json, sys, re
pid = sys.argv[1]
for vf in sorted(glob.glob(f"/tmp/mut/results/{pid}_m*.verify.json")):
    m = re.search(r"_(m\d+)\.verify", vf).group(1)
    try:
        v = json.load(open(vf))
    except Exception as e:
        print(pid, m, "verify unreadable", open(vf).read()[-300:]); continue
    line = f"{pid} {m} valid={v.get('valid')}"
    cf = vf.replace(".verify.", ".check.")
    try:
        c = json.load(open(cf))
        for k, r in c.items():
            line += f" | {k}: exit={r.get('exit')} keys={r.get('violation_keys')}"
            if r.get("exit") not in (0, 1):
                line += " !!HARNESS " + " ".join(r.get("first", []))[:300]
    except Exception as e:
        line += " | check pending/unreadable"
    print(line)
