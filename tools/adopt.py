#!/venv/bin/python
"""adopt.py <srcdir> <seed-id> <detected_by comma list or 'none'> [note]  -- copy a verified seeded change into /verif/seeded/<id>/"""
import json, os, shutil, sys, subprocess
src, sid, det = sys.argv[1], sys.argv[2], sys.argv[3]
note = sys.argv[4] if len(sys.argv) > 4 else ""
dst = os.path.join("/verif/seeded", sid); os.makedirs(dst, exist_ok=True)
for f in ("patch.diff", "demo.py"):
    shutil.copy(os.path.join(src, f), os.path.join(dst, f))
meta = json.load(open(os.path.join(src, "meta.json")))
pre = os.environ.get("ADOPT_VERIFY")  # a verify result already produced by process_mutants.sh for this very directory
v = json.load(open(pre)) if pre and os.path.exists(pre) else {"valid": False}
for _attempt in range(0 if v["valid"] else 3):  # the repository's own suite is occasionally flaky under heavy machine load
    v = json.loads(subprocess.run(["/verif/tools/mutant.py", "verify", dst], capture_output=True, text=True).stdout)
    if v["valid"]:
        break
meta["verified_by_me"] = {"repo_head": v["repo_head"], "tests_pass_with_change": v["tests_pass_with_change"], "demo_fails_with_change": v["demo_on_mutant_exit"] != 0,
                          "demo_passes_without": v["demo_on_clean_exit"] == 0, "commands": ["tools/mutant.py verify seeded/%s" % sid, "tools/mutant.py check seeded/%s <checks>" % sid]}
meta["detected_by"] = [] if det == "none" else det.split(",")
if note: meta["note"] = note
json.dump(meta, open(os.path.join(dst, "meta.json"), "w"), indent=1)
print(sid, "valid" if v["valid"] else "INVALID", meta["detected_by"])
