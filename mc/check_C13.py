"""C13 -- evaluation is free of side effects on arguments and on the model (E2 history explorer).

All call histories up to a depth over the public evaluation operations, for every subject x
configuration x mode x argument kind; after every call the arguments (value and version counter)
and the model state are compared with snapshots; repeated calls must be bit-identical in eval mode.
"""
import itertools

import numpy as np
import torch
from torch import nn

from mc import catalog as C
from mc import dcatalog as DC
from mc.common import bump, new_result
from mc.harness import build_case, dev_signature
from mc.numerics import base_row
from mc.params import pat_tensor
from nflows import transforms as T

PROPERTY = "C13"
RULE = (
    "subject (every transform, distribution, flow) x config (<=1 deviation; thorough <=2) x pattern {init, pat1} x mode {eval, train} x "
    "argument kind {fresh, non-contiguous view, slice of a larger tensor, requires_grad leaf, non-leaf with grad history} (applied to "
    "inputs and context) x ALL call histories of length <=2 (thorough <=3) over {forward(x1), forward(x2), inverse(y1)} resp. "
    "{log_prob(x1), log_prob(x2), sample(2), sample_and_log_prob(1), transform_to_noise(x1)}, for elementwise transforms also forward on items twice as large, each alphabet plus the first call with "
    "arguments in the other floating dtype (may raise; must not change state). In eval mode every result is also compared bitwise with the "
    "same call made as the only call on a freshly built object (order independence). Non-trivial = history of length >=2 "
    "or a non-fresh argument kind."
)
ASSUMPTIONS = [
    "tensors returned by earlier calls of the history are held by the caller and must keep their values during later calls (no shared output buffers)",
    "the training flag of every sub-module is part of the state; distributions and flows are also run in training mode with their embedding net / normalisation layers frozen in evaluation mode ('mixed')",
    "module-level containers and tensors of every loaded nflows module must be unchanged by a call (no memo / scratch buffer at module scope)",
    "arguments: value (torch.equal) and _version must be unchanged, also for the base tensor of a view; model state: values of all parameters and buffers (incl. non-persistent)",
    "training mode: only BatchNorm running statistics (nflows BatchNorm and torch.nn.BatchNorm*), and ActNorm log_scale/shift/initialized while uninitialised, may change",
    "a call that raises is allowed (other properties own that) but must leave everything unchanged; an autograd 'in-place operation' error is reported as an attempted write",
    "sampling calls are made reproducible with torch.manual_seed before each call",
]

T_OPS = ("fwd1", "fwd2", "inv1", "fwd32")
T_OPS_WIDE = T_OPS + ("fwdW",)  # elementwise transforms accept any per-item shape: one more call on items twice as large
D_OPS = ("lp1", "lp2", "sample", "salp", "t2n", "lp32")
KINDS = ("fresh", "noncontig", "slice", "leaf", "nonleaf")


def bounds(tier, seed):
    return {"history_depth": 2 if tier == "quick" else 3, "arg_kinds": list(KINDS), "modes": ["eval", "train"], "config_deviations": 1 if tier == "quick" else 2}


def make_arg(x, kind):
    """returns (tensor passed to the library, list of tensors to monitor)"""
    if x is None:
        return None, []
    if kind == "fresh":
        a = x.clone()
        return a, [a]
    if kind == "noncontig":
        base = torch.stack([x, x + 1.0], dim=-1).reshape(*x.shape[:-1], -1).contiguous() if x.dim() > 1 else torch.stack([x, x + 1.0], dim=-1).reshape(-1)
        a = base[..., ::2]
        assert torch.equal(a, x)
        return a, [a, base]
    if kind == "slice":
        big = torch.cat([x[:1] * 0 + 7.0, x, x[:1] * 0 - 7.0], dim=0)
        a = big[1:-1]
        return a, [a, big]
    if kind == "leaf":
        a = x.clone().requires_grad_(True)
        return a, [a]
    if kind == "nonleaf":
        leaf = x.clone().requires_grad_(True)
        a = leaf * 1.0
        return a, [a, leaf]
    raise ValueError(kind)


def _other(t):
    """the same values in the other floating dtype (integer / bool tensors unchanged)"""
    if not t.is_floating_point():
        return t
    return t.double() if t.dtype == torch.float32 else t.float()


def snap_tensors(ts):
    return [(t.detach().clone(), t._version) for t in ts]


def changed_tensors(ts, snap):
    out = []
    for i, (t, (c, v)) in enumerate(zip(ts, snap)):
        if t.shape != c.shape or not torch.equal(t.detach(), c):
            out.append((i, "value"))
        elif t._version != v:
            out.append((i, "version"))
    return out


_GMODS = {"n": -1, "mods": [], "cands": None, "nattr": -1}


def global_fingerprint():
    """module-level mutable objects of the library (dict / list / set / tensor attributes of every loaded nflows module): a memo or
    scratch buffer kept at module scope makes results depend on what other models did before, in this process.
    (The candidate list is re-scanned only when a module was loaded or a module gained / lost an attribute.)"""
    import sys

    if len(sys.modules) != _GMODS["n"]:
        _GMODS["n"] = len(sys.modules)
        _GMODS["mods"] = [(n, m) for n, m in list(sys.modules.items()) if m is not None and (n == "nflows" or n.startswith("nflows."))]
        _GMODS["nattr"] = -1
    nattr = sum(1 for _, m in _GMODS["mods"] for k in vars(m) if not k.startswith("__"))  # (dunder names: Python's own bookkeeping, e.g. __warningregistry__)
    if nattr != _GMODS["nattr"]:
        _GMODS["nattr"] = nattr
        _GMODS["cands"] = [(n, k) for n, m in _GMODS["mods"] for k, v in list(vars(m).items())
                           if not k.startswith("__") and (isinstance(v, (dict, list, set)) or torch.is_tensor(v))]
    fp = {"#attrs": nattr}
    for name, k in _GMODS["cands"]:
        v = vars(sys.modules[name]).get(k)
        if isinstance(v, (dict, list, set)):
            try:
                items = tuple(sorted(repr(i)[:60] for i in (v.keys() if isinstance(v, dict) else v)))
            except Exception:
                items = ()
            vals = tuple((tuple(t.shape), str(t.dtype)) for t in (v.values() if isinstance(v, dict) else v) if torch.is_tensor(t))
            fp[(name, k)] = (len(v), items, vals)
        elif torch.is_tensor(v):
            fp[(name, k)] = (tuple(v.shape), str(v.dtype), float(v.double().sum()) if v.numel() else 0.0, v._version)
        else:
            fp[(name, k)] = repr(type(v))
    return fp


_GBASE = {}


def reset_globals():
    """every history starts from the module-level state the library had when it was first looked at (normally: as imported), so
    that a finding that involves module-level state replays identically within one process"""
    import copy
    import sys

    global_fingerprint()
    for name, k in _GMODS["cands"] or []:
        v = vars(sys.modules[name]).get(k)
        if (name, k) not in _GBASE:
            try:
                _GBASE[(name, k)] = copy.deepcopy(v)
            except Exception:
                _GBASE[(name, k)] = None
            continue
        b = _GBASE[(name, k)]
        try:
            if isinstance(v, dict) and isinstance(b, dict):
                v.clear()
                v.update(copy.deepcopy(b))
            elif isinstance(v, list) and isinstance(b, list):
                v[:] = copy.deepcopy(b)
            elif isinstance(v, set) and isinstance(b, set):
                v.clear()
                v.update(copy.deepcopy(b))
            elif torch.is_tensor(v) and torch.is_tensor(b) and v.shape == b.shape:
                with torch.no_grad():
                    v.copy_(b)
        except Exception:
            pass


def snap_state(m):
    d = {}
    for n, p in list(m.named_parameters()) + list(m.named_buffers()):
        d[n] = p.detach().clone()
    # the mode of every sub-module is state as well: a call must not switch a frozen (eval) part of a model back to training
    for n, mod in m.named_modules():
        d["<mode>" + n] = torch.tensor(bool(mod.training))
    return d


def allowed_in_training(m):
    ok = set()
    for mn, mod in m.named_modules():
        pre = mn + "." if mn else ""
        if isinstance(mod, (T.BatchNorm, nn.BatchNorm1d, nn.BatchNorm2d)) and mod.training:
            ok |= {pre + "running_mean", pre + "running_var", pre + "num_batches_tracked"}
        if isinstance(mod, T.ActNorm) and mod.training and not bool(mod.initialized):
            ok |= {pre + "log_scale", pre + "shift", pre + "initialized"}
    return ok


def diff_state(m, snap, allowed):
    out = []
    cur = dict(list(m.named_parameters()) + list(m.named_buffers()))
    cur.update({"<mode>" + n: torch.tensor(bool(mod.training)) for n, mod in m.named_modules()})
    for n, c in snap.items():
        t = cur.get(n)
        if t is None or t.shape != c.shape or t.dtype != c.dtype or not torch.equal(t.detach(), c):
            if n not in allowed:
                out.append(n)
    return out


def same(a, b):
    if isinstance(a, (tuple, list)):
        return all(same(x, y) for x, y in zip(a, b))
    if a is None or b is None:
        return a is b
    if a.shape != b.shape or a.dtype != b.dtype:
        return False
    a, b = a.detach(), b.detach()
    if torch.equal(a, b):
        return True
    return bool(a.is_floating_point() and torch.equal(torch.isnan(a), torch.isnan(b)) and torch.equal(torch.nan_to_num(a, nan=0.0), torch.nan_to_num(b, nan=0.0)))


def explore(obj, ops_table, hist, kind, train, is_eval_repeatable=True, refs=None):
    """run one history; returns list[(cellclass, symptom, msg)]"""
    out = []
    first = {}
    held = []
    reset_globals()
    for step, op in enumerate(hist):
        fn, raw_args = ops_table[op]
        passed, mon = [], []
        for a in raw_args:
            p, mo = make_arg(a, kind)
            passed.append(p)
            mon.extend(mo)
        asnap = snap_tensors(mon)
        ssnap = snap_state(obj)
        gsnap = global_fingerprint()
        allowed = allowed_in_training(obj) if train else set()
        # sampling calls are made reproducible (same seed every time); deterministic evaluation calls get a different
        # RNG state at every step, so a library that draws random numbers in such a call (e.g. dropout left on in
        # eval mode) shows up as a repeated call that differs
        torch.manual_seed(7 if op in ("sample", "salp") else 100 + step)
        res = None
        err = None
        try:
            if kind in ("leaf", "nonleaf"):
                res = fn(*passed)
            else:
                with torch.no_grad():
                    res = fn(*passed)
        except Exception as e:
            err = e
        where = "history %s step %d (%s), %s arguments, %s mode" % (list(hist), step, op, kind, ("mixed" if train == "mixed" else ("train" if train else "eval")))
        if err is not None and "in-place" in str(err).lower():
            out.append(("args:" + kind, "in-place write attempted on an argument", "%s: %s: %s" % (where, type(err).__name__, str(err)[:140])))
        ch = changed_tensors(mon, asnap)
        if ch:
            out.append(("args:" + kind, "argument modified (%s)" % ch[0][1], "%s: caller-owned tensor #%d changed (%s)" % (where, ch[0][0], ch[0][1])))
        # tensors handed out by earlier calls belong to the caller as well: a later call must not overwrite them
        for (pstep, pop, live, clones) in held:
            if any(l.shape != c.shape or not same(l, c) for l, c in zip(live, clones)):
                out.append(("results:" + kind, "result of an earlier call overwritten by a later call", "%s: the tensors returned by step %d (%s) changed during this call" % (where, pstep, pop)))
                break
        if err is None:
            live = [t for t in (res if isinstance(res, (tuple, list)) else [res]) if torch.is_tensor(t)]
            # ... nor may a new result live in the storage of a tensor handed out by an earlier call (with identical values -- a sampler
            # re-seeded alike -- the overwrite above would be invisible)
            mine = {t.untyped_storage().data_ptr() for t in live if t.numel()}
            argp = {t.untyped_storage().data_ptr() for t in mon if t.numel()}
            for (pstep, pop, plive, _c) in held:
                if any(t.numel() and t.untyped_storage().data_ptr() in mine and t.untyped_storage().data_ptr() not in argp for t in plive):
                    out.append(("results:" + kind, "result shares its storage with the result of an earlier call", "%s: a returned tensor lives in the storage of a tensor returned by step %d (%s)" % (where, pstep, pop)))
                    break
            held.append((step, op, live, [t.detach().clone() for t in live]))
        g2 = global_fingerprint()
        if g2 != gsnap:
            chg = [str(k) for k in set(g2) | set(gsnap) if g2.get(k) != gsnap.get(k)]
            out.append(("global-state", "module-level state of the library modified", "%s: module-level objects changed during the call: %s" % (where, sorted(chg)[:3])))
        ds = diff_state(obj, ssnap, allowed)
        if ds:
            out.append(("state:" + (("mixed" if train == "mixed" else ("train" if train else "eval"))), "model state modified", "%s: parameters/buffers changed: %s" % (where, ds[:4])))
        if err is None and not train and is_eval_repeatable:
            if op in first:
                if not same(first[op], res):
                    out.append(("repeat:eval", "repeated call differs", "%s: result differs bitwise from the first %s call of this history" % (where, op)))
            else:
                first[op] = res
            # order independence: the same call as the only call on a freshly built object (same mode, same grad mode)
            rk = (op, kind in ("leaf", "nonleaf"))
            if refs is not None:
                if len(hist) == 1:
                    refs.setdefault(rk, res)
                elif rk in refs and not same(refs[rk], res):
                    out.append(("order:eval", "result depends on the calls made before", "%s: result differs bitwise from the same call made first on a freshly built object" % where))
        if out:
            break
    return out


def histories(ops, depth):
    for L in range(1, depth + 1):
        for h in itertools.product(ops, repeat=L):
            yield h


def run_transform_case(sname, cfg, pname, seed, tier, res=None, only=None):
    vio = []
    s = C.SUBJECTS[sname]
    sig = dev_signature(s, cfg)
    depth = 2 if tier == "quick" else 3
    shape = s.shape(cfg)
    D = int(np.prod(shape))
    dom = s.cell_domain(cfg)
    x1 = torch.tensor(np.stack([base_row(D, dom, seed + k) for k in range(3)]), dtype=torch.float64).reshape(3, *shape)
    x2 = torch.tensor(np.stack([base_row(D, dom, seed + 4 + k) for k in range(2)]), dtype=torch.float64).reshape(2, *shape)
    cs = s.ctx_shape(cfg)
    c1 = None if cs is None else torch.stack([pat_tensor(cs, 5 + k, 0.7) for k in range(3)])
    c2 = None if cs is None else torch.stack([pat_tensor(cs, 8 + k, 0.7) for k in range(2)])
    try:
        _, m0 = build_case(sname, cfg, pname, seed)
        with torch.no_grad():
            y1 = (m0(x1, c1) if c1 is not None else m0(x1))[0].detach().clone()
    except Exception as e:
        if res is not None:
            bump(res["skipped"], "cannot-construct/forward (other properties): %s" % type(e).__name__)
        return vio
    wide = s.kind == "elementwise" and "shape" in s.axes and cs is None and len(shape) >= 1
    xw = torch.cat([x1, 0.5 * x1], dim=1) if wide else None
    jobs = [(only["train"], only["kind"], tuple(only["hist"]))] if only else [(tr, k, h) for tr in (False, True) for k in KINDS for h in histories(T_OPS_WIDE if wide else T_OPS, depth)]
    if only and not only["train"]:
        jobs = [(False, only["kind"], (op,)) for op in dict.fromkeys(only["hist"])] + jobs
    refs = {}
    for train, kind, hist in jobs:
        if "inv1" in hist and not s.has_inverse:
            continue
        _, m = build_case(sname, cfg, pname, seed, train=train)

        def mk(fn):
            return (lambda x, c=None: fn(x, c)) if cs is not None else (lambda x: fn(x))

        table = {"fwd1": (mk(m.forward), [x1] + ([c1] if cs is not None else [])), "fwd2": (mk(m.forward), [x2] + ([c2] if cs is not None else [])),
                 "inv1": (mk(m.inverse), [y1] + ([c1] if cs is not None else [])),
                 "fwd32": (mk(m.forward), [_other(x1)] + ([_other(c1)] if cs is not None else []))}
        if wide:
            table["fwdW"] = (mk(m.forward), [xw])
        vs = explore(m, table, hist, kind, train, is_eval_repeatable=True, refs=None if train else refs)
        if res is not None:
            res["evaluations"] += 1
            res["states"] += len(hist)
            res["transitions"] += len(hist)
            res["traces"] += 1
            if len(hist) >= 2 or kind != "fresh":
                res["nontrivial"] += 1
            bump(res["outcomes"], "transform:%s:%s:%s" % ("mixed" if train == "mixed" else ("train" if train else "eval"), kind, "violation" if vs else "ok"))
        for cell, sym, msg in vs:
            vio.append({"key": "%s|%s|%s|%s" % (sname, sig, cell, sym), "case": {"kind": "transform", "subject": sname, "cfg": cfg, "pattern": pname, "seed": seed, "train": train, "kind_arg": kind, "hist": list(hist)},
                        "msg": "%s cfg=%s pattern=%s: %s" % (sname, cfg, pname, msg)})
    if res is not None and not res["samples"]:
        res["samples"].append({"subject": sname, "cfg": cfg, "pattern": pname, "mode": "eval", "arg_kind": "noncontig", "history": ["fwd1", "inv1"]})
    return vio


def run_dist_case(dname, cfg, pname, seed, tier, res=None, only=None):
    vio = []
    d = DC.DSUBJECTS[dname]
    sig = DC.dev_signature(d, cfg)
    depth = 2 if tier == "quick" else 3
    # float32, the precision the library's samplers work in (they create default-dtype noise: a .double() model cannot be sampled)
    x1, x2 = d.points(cfg, 3, seed, dtype=torch.float32), d.points(cfg, 2, seed + 3, dtype=torch.float32)
    c1, c2 = d.contexts(cfg, 3, seed, dtype=torch.float32), d.contexts(cfg, 2, seed + 3, dtype=torch.float32)
    ops = [o for o in D_OPS if (o != "t2n" or d.is_flow) and (o not in ("sample", "salp") or d.can_sample)]
    jobs = [(only["train"], only["kind_arg"], tuple(only["hist"]))] if only else [(tr, k, h) for tr in (False, True, "mixed") for k in (KINDS if tr != "mixed" else KINDS[:1]) for h in histories(ops, depth)]
    if only and not only["train"]:
        jobs = [(False, only["kind_arg"], (op,)) for op in dict.fromkeys(only["hist"])] + jobs
    refs = {}
    for train, kind, hist in jobs:
        try:
            obj = DC.materialise(d, cfg, pname, seed, dtype=torch.float32, train=bool(train))
            if train == "mixed":
                # a model in training mode with frozen parts (embedding net, normalisation layers) left in evaluation mode
                frozen = [mod for n_, mod in obj.named_modules() if n_ and (n_ == "_embedding_net" or isinstance(mod, (T.BatchNorm, nn.BatchNorm1d, nn.BatchNorm2d, T.ActNorm)))]
                if not frozen:
                    break
                for mod in frozen:
                    mod.eval()
        except Exception as e:
            if res is not None:
                bump(res["skipped"], "cannot-construct: %s" % type(e).__name__)
            return vio
        hasc = c1 is not None
        table = {
            "lp1": ((lambda x, c=None: obj.log_prob(x, context=c)), [x1] + ([c1] if hasc else [])),
            "lp2": ((lambda x, c=None: obj.log_prob(x, context=c)), [x2] + ([c2] if hasc else [])),
            "sample": ((lambda c=None: obj.sample(2, context=c)), ([c2] if hasc else [])),
            "salp": ((lambda c=None: obj.sample_and_log_prob(1, context=c)), ([c2] if hasc else [])),
        }
        table["lp32"] = ((lambda x, c=None: obj.log_prob(x, context=c)), [_other(x1)] + ([_other(c1)] if hasc else []))
        if d.is_flow:
            table["t2n"] = ((lambda x, c=None: obj.transform_to_noise(x, context=c)), [x1] + ([c1] if hasc else []))
        vs = explore(obj, table, hist, kind, train, is_eval_repeatable=True, refs=None if train else refs)
        if res is not None:
            res["evaluations"] += 1
            res["states"] += len(hist)
            res["transitions"] += len(hist)
            res["traces"] += 1
            if len(hist) >= 2 or kind != "fresh":
                res["nontrivial"] += 1
            bump(res["outcomes"], "dist:%s:%s:%s" % ("mixed" if train == "mixed" else ("train" if train else "eval"), kind, "violation" if vs else "ok"))
        for cell, sym, msg in vs:
            vio.append({"key": "%s|%s|%s|%s" % (dname, sig, cell, sym), "case": {"kind": "dist", "subject": dname, "cfg": cfg, "pattern": pname, "seed": seed, "train": train, "kind_arg": kind, "hist": list(hist)},
                        "msg": "%s cfg=%s pattern=%s: %s" % (dname, cfg, pname, msg)})
    return vio


def units(tier, seed):
    k = 1 if tier == "quick" else 2
    us = [("t", name, cfg, tier, seed) for name, s in C.SUBJECTS.items() for cfg in C.enum_configs(s, k)]
    us += [("d", name, cfg, tier, seed) for name, d in DC.DSUBJECTS.items() if d.torch_tensor_api for cfg in DC.enum_configs(d, k)]
    return us


def run_unit(unit):
    kind, name, cfg, tier, seed = unit
    res = new_result()
    if kind == "t":
        pats = [p for p in C.SUBJECTS[name].patterns if p in ("init", "pat1")] or ["init"]
        for pname in pats:
            res["violations"].extend(run_transform_case(name, cfg, pname, seed, tier, res))
        if C.SUBJECTS[name]._post is not None:
            # the catalogue gives such subjects non-trivial buffers (running statistics); here also exactly as constructed
            C.AS_BUILT[0] = True
            try:
                vs = run_transform_case(name, cfg, "init", seed, tier, res)
            finally:
                C.AS_BUILT[0] = False
            for v in vs:
                v["key"] = v["key"].replace("|", "|as-built,", 1)
                v["case"]["as_built"] = True
            res["violations"].extend(vs)
    else:
        for pname in DC.DSUBJECTS[name].patterns:
            res["violations"].extend(run_dist_case(name, cfg, pname, seed, tier, res))
    return res


def replay(case):
    only = {"train": case["train"], "kind": case["kind_arg"], "kind_arg": case["kind_arg"], "hist": case["hist"]}
    if case["kind"] == "transform" and case.get("as_built"):
        C.AS_BUILT[0] = True
        try:
            vs = run_transform_case(case["subject"], case["cfg"], case["pattern"], case["seed"], "thorough", None, only=only)
        finally:
            C.AS_BUILT[0] = False
        for v in vs:
            v["key"] = v["key"].replace("|", "|as-built,", 1)
            v["case"]["as_built"] = True
        return vs
    if case["kind"] == "transform":
        return run_transform_case(case["subject"], case["cfg"], case["pattern"], case["seed"], "thorough", None, only=only)
    return run_dist_case(case["subject"], case["cfg"], case["pattern"], case["seed"], "thorough", None, only=only)


def case_size(case):
    return len(case.get("hist", []))
