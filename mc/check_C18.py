"""C18 -- the distribution interface keeps its documented shape and argument contract (E1/E2 explorer).

distribution/flow x configuration x num_samples x batch_size x context rows x illegal arguments.
torch.randn is owned by a *tagging seam*: successive calls hand out successive, pairwise distinct
noise items, so every returned draw can be traced back to the injected item it came from and to the
context row it was generated under.
"""
import itertools
from unittest import mock

import numpy as np
import torch

from mc import dcatalog as DC
from mc.common import bump, new_result

PROPERTY = "C18"
RULE = (
    "every Distribution / Flow subject x config (<=2 deviations; thorough <=3) x pattern pat1 x num_samples {1,2,3,5} x batch_size {None,1,2,3,5,7} x context rows {as configured: none or 1,2,3 "
    "rows} plus the illegal arguments {0,-1,2.0,'3',None} for num_samples and {0,-1,2.0,'3'} for batch_size and a context with a mismatching row count for log_prob. One case = one call; "
    "non-trivial = batch_size does not divide num_samples, or >=2 context rows, or an illegal argument."
)
ASSUMPTIONS = [
    "flows run in float64 with float64 noise supplied by the seam (trace-back tolerance 1e-6); distributions whose samplers allocate default-dtype buffers themselves run in float32 (5e-3)",
    "torch.randn replaced by a tagging seam (item k = quasi-random distinct base value + 0.013*arange(event size)); torch.rand/multinomial left alone (shape contract only for Bernoulli and the mixture)",
    "trace-back: StandardNormal draws are the injected items; flows with a StandardNormal base via transform_to_noise(sample, context row); ConditionalDiagonalNormal via the log_prob differences within a block",
    "a distribution that does not offer sampling signals it with NotImplementedError (DiagonalNormal): skipped and counted",
]

NS = (1, 2, 3, 5)
BS = (None, 1, 2, 3, 5, 7)


def bounds(tier, seed):
    return {"num_samples": list(NS), "batch_size": list(BS), "context_rows": [1, 2, 3], "illegal_counts": [0, -1, 2.0, "3", None]}


def dtype_for(d, cfg):
    """flows are traced in float64 (the seam supplies float64 noise) so that the trace-back is exact; everything whose sampler
    allocates default-dtype buffers itself (MADE mixture, Bernoulli) runs in the library's default float32"""
    if d.is_flow and cfg.get("base") != "mog":
        return torch.float64
    return torch.float32


class Tagger:
    def __init__(self, dtype=None):
        self.force = dtype
        self.k = 0
        self.items = []
        self.calls = []

    def randn(self, *size, **kw):
        if len(size) == 1 and isinstance(size[0], (tuple, list, torch.Size)):
            size = tuple(size[0])
        dtype = self.force or kw.get("dtype") or torch.get_default_dtype()
        n = int(size[0]) if len(size) else 1
        ev = tuple(size[1:])
        E = int(np.prod(ev)) if ev else 1
        out = torch.empty(n, E, dtype=torch.float64)
        for r in range(n):
            base = -2.4 + 4.8 * ((self.k * 0.6180339887498949 + 0.137) % 1.0)
            out[r] = base + 0.013 * torch.arange(E, dtype=torch.float64)
            self.items.append(out[r].clone())
            self.k += 1
        self.calls.append(tuple(size))
        return out.reshape(n, *ev).to(dtype) if len(size) else out.reshape(()).to(dtype)


def find_item(items, v, tol=5e-3):
    for i, it in enumerate(items):
        if it.shape == v.shape and float((it - v).abs().max()) <= tol * max(1.0, float(v.abs().max())):
            return i
    return None


def check_sample(d, obj, cfg, n, bs, rows, seed):
    """returns list[(cell, symptom, msg)], info"""
    out = []
    es = d.event_shape(cfg)
    dt = dtype_for(d, cfg)
    ctx = d.contexts(cfg, rows, seed, dtype=dt) if rows else None
    if d.needs_context and ctx is None:
        return out, {"skip": "needs context"}
    tg = Tagger(dt if dt == torch.float64 else None)
    cell = "%s%s" % ("context" if ctx is not None else "no-context", "" if bs is None else (",batched" + ("-nondividing" if n % bs else "")))
    try:
        with mock.patch.object(torch, "randn", tg.randn), torch.no_grad():
            s = obj.sample(n, context=ctx) if bs is None else obj.sample(n, context=ctx, batch_size=bs)
    except NotImplementedError:
        return out, {"skip": "sampling not offered"}
    except Exception as e:
        out.append((cell, "sample raises %s" % type(e).__name__, "sample(%d, context=%s, batch_size=%s) raised %s: %s" % (n, None if ctx is None else "%d rows" % rows, bs, type(e).__name__, str(e)[:120])))
        return out, {}
    exp = ((rows, n) if ctx is not None else (n,)) + tuple(es)
    if tuple(s.shape) != exp:
        out.append((cell, "wrong sample shape", "sample(%d, context=%s, batch_size=%s) has shape %s, documented %s" % (n, None if ctx is None else "%d rows" % rows, bs, tuple(s.shape), exp)))
        return out, {}
    if not torch.isfinite(s).all():
        out.append((cell, "non-finite samples", "sample returned non-finite values"))
        return out, {}
    # all injected noise items differ, so for a continuous distribution all draws of one block differ: identical draws mean a
    # batch (or a work buffer) was handed out more than once
    if not d.binary and n >= 2 and tg.items:
        blocks = s.reshape(rows if ctx is not None else 1, n, -1)
        for i in range(blocks.shape[0]):
            dup = [(a, b_) for a in range(n) for b_ in range(a + 1, n) if torch.equal(blocks[i, a], blocks[i, b_])]
            if dup:
                out.append((cell, "identical draws in one call", "sample(%d, context=%s, batch_size=%s): draws %d and %d of block %d are identical although every injected noise item is different" % (n, None if ctx is None else "%d rows" % rows, bs, dup[0][0], dup[0][1], i)))
                return out, {}
    # trace every draw back to a distinct injected noise item under its own context row
    flat = s.reshape(-1, *es)
    cflat = None if ctx is None else ctx.repeat_interleave(n, dim=0)
    noise = None
    if d.name == "StandardNormal":
        noise = flat
    elif d.is_flow and d.name in ("MaskedAutoregressiveFlow", "SimpleRealNVP") or (d.is_flow and cfg.get("base") == "standard"):
        try:
            with torch.no_grad():
                noise = obj.transform_to_noise(flat, context=cflat)
        except Exception as e:
            out.append((cell, "transform_to_noise raises on own samples", "%s: %s" % (type(e).__name__, str(e)[:100])))
            return out, {}
    if noise is not None and tg.items:
        used = set()
        for r in range(noise.shape[0]):
            i = find_item(tg.items, noise[r].reshape(-1).double(), tol=(1e-6 if dt == torch.float64 else 5e-3))
            if i is None:
                out.append((cell, "draw does not map back to an injected noise item under its own context row", "draw %d (context row %s) maps to noise %s which is none of the %d injected items" % (r, None if ctx is None else r // n, noise[r].reshape(-1).tolist()[:3], len(tg.items))))
                break
            if i in used:
                out.append((cell, "two draws come from the same noise item", "draw %d re-uses injected item %d" % (r, i)))
                break
            used.add(i)
    if d.name == "ConditionalDiagonalNormal" and n >= 2:
        with torch.no_grad():
            lp = obj.log_prob(flat, context=cflat).reshape(rows, n)
        # within block i: lp_ij - lp_i0 = -0.5 (|eps_ij|^2 - |eps_i0|^2) for the injected items in generation order
        sq = torch.stack([(it ** 2).sum() for it in tg.items])
        ok = False
        for perm_items in (sq,):
            pass
        # generation order is unknown for batched draws: every block must match SOME choice of distinct items
        for i in range(rows):
            diffs = (lp[i] - lp[i, 0]).double()
            found = False
            for a in range(len(sq)):
                cand = [a]
                good = True
                for j in range(1, n):
                    target = float(sq[a]) - 2.0 * float(diffs[j])
                    m = [b for b in range(len(sq)) if b not in cand and abs(float(sq[b]) - target) <= 1e-3 * max(1.0, abs(target))]
                    if not m:
                        good = False
                        break
                    cand.append(m[0])
                if good:
                    found = True
                    break
            if not found:
                out.append((cell, "draws of a block are not consistent with the injected noise under its own context row", "block %d: log_prob differences %s match no set of distinct injected noise items" % (i, diffs.tolist())))
                break
    if d.binary and not bool(((s == 0) | (s == 1)).all()):
        out.append((cell, "non-binary samples", "Bernoulli samples outside {0,1}"))
    return out, {}


def check_salp(d, obj, cfg, n, rows, seed):
    out = []
    es = d.event_shape(cfg)
    dt = dtype_for(d, cfg)
    ctx = d.contexts(cfg, rows, seed, dtype=dt) if rows else None
    if d.needs_context and ctx is None:
        return out, {"skip": "needs context"}
    cell = "context" if ctx is not None else "no-context"
    tg = Tagger(dt if dt == torch.float64 else None)
    try:
        with mock.patch.object(torch, "randn", tg.randn), torch.no_grad():
            torch.manual_seed(5)
            s, lp = obj.sample_and_log_prob(n, context=ctx)
    except NotImplementedError:
        return out, {"skip": "sampling not offered"}
    except Exception as e:
        out.append((cell, "sample_and_log_prob raises %s" % type(e).__name__, "sample_and_log_prob(%d, context=%s) raised %s: %s" % (n, None if ctx is None else "%d rows" % rows, type(e).__name__, str(e)[:120])))
        return out, {}
    lead = (rows, n) if ctx is not None else (n,)
    if tuple(s.shape) != lead + tuple(es) or tuple(lp.shape) != lead:
        out.append((cell, "wrong sample_and_log_prob shapes", "sample_and_log_prob(%d, context=%s): samples %s, log_prob %s, documented %s and %s" % (n, None if ctx is None else "%d rows" % rows, tuple(s.shape), tuple(lp.shape), lead + tuple(es), lead)))
    return out, {}


def check_log_prob(d, obj, cfg, rows, seed):
    out = []
    dt = dtype_for(d, cfg)
    x = d.points(cfg, rows, seed, dtype=dt)
    ctx = d.contexts(cfg, rows, seed, dtype=dt)
    try:
        with torch.no_grad():
            lp = obj.log_prob(x, context=ctx)
        if tuple(lp.shape) != (rows,):
            out.append(("log_prob", "wrong log_prob shape", "log_prob of %d rows has shape %s" % (rows, tuple(lp.shape))))
    except Exception as e:
        out.append(("log_prob", "log_prob raises %s" % type(e).__name__, "%s: %s" % (type(e).__name__, str(e)[:100])))
    if ctx is not None:
        for bad in (rows + 1, max(1, rows - 1) if rows > 1 else 2):
            if bad == rows:
                continue
            c2 = d.contexts(cfg, bad, seed, dtype=dt)
            try:
                with torch.no_grad():
                    obj.log_prob(x, context=c2)
                out.append(("log_prob", "mismatching context accepted", "log_prob(%d rows, context of %d rows) did not raise ValueError" % (rows, bad)))
            except ValueError:
                pass
            except Exception as e:
                out.append(("log_prob", "mismatching context raises %s" % type(e).__name__, "log_prob(%d rows, context of %d rows) raised %s instead of ValueError" % (rows, bad, type(e).__name__)))
    return out


def check_illegal(d, obj, cfg, seed):
    out = []
    ctx = d.contexts(cfg, 2, seed, dtype=dtype_for(d, cfg))
    if d.needs_context and ctx is None:
        return out
    for bad in (0, -1, 2.0, "3", None):
        for fn_name in ("sample", "sample_and_log_prob"):
            try:
                with torch.no_grad():
                    getattr(obj, fn_name)(bad, context=ctx)
                out.append(("illegal:num_samples", "accepted", "%s(%r) did not raise TypeError" % (fn_name, bad)))
            except TypeError:
                pass
            except NotImplementedError:
                pass
            except Exception as e:
                out.append(("illegal:num_samples", "raises %s" % type(e).__name__, "%s(%r) raised %s instead of TypeError" % (fn_name, bad, type(e).__name__)))
    for bad in (0, -1, 2.0, "3"):
        try:
            with torch.no_grad():
                obj.sample(4, context=ctx, batch_size=bad)
            out.append(("illegal:batch_size", "accepted", "sample(4, batch_size=%r) did not raise TypeError" % (bad,)))
        except TypeError:
            pass
        except NotImplementedError:
            pass
        except Exception as e:
            out.append(("illegal:batch_size", "raises %s" % type(e).__name__, "sample(4, batch_size=%r) raised %s instead of TypeError" % (bad, type(e).__name__)))
    return out


def run_subject(dname, cfg, seed, res, only=None):
    d = DC.DSUBJECTS[dname]
    vio = []
    try:
        obj = DC.materialise(d, cfg, "pat1" if "pat1" in d.patterns else "init", seed, dtype=dtype_for(d, cfg))
    except Exception as e:
        bump(res["skipped"], "cannot-construct (C05's subject): %s" % type(e).__name__)
        return vio
    sig = DC.dev_signature(d, cfg)
    has_ctx = d.ctx_shape(cfg) is not None
    row_opts = (1, 2, 3) if has_ctx else (0,)

    def add(vs, nontrivial, label, case):
        res["evaluations"] += 1
        res["states"] += 1
        res["transitions"] += 1
        res["traces"] += 1
        if nontrivial:
            res["nontrivial"] += 1
        bump(res["outcomes"], "%s:%s" % (label, "violation" if vs else "ok"))
        for cell, sym, msg in vs:
            vio.append({"key": "%s|%s|%s|%s" % (dname, sig, cell, sym), "case": dict(case, subject=dname, cfg=cfg, seed=seed), "msg": "%s cfg=%s: %s" % (dname, cfg, msg)})

    for rows in row_opts:
        for n in NS:
            for bs in BS:
                case = {"op": "sample", "n": n, "bs": bs, "rows": rows}
                if only and only != case:
                    continue
                vs, info = check_sample(d, obj, cfg, n, bs, rows, seed)
                if info.get("skip"):
                    bump(res["skipped"], info["skip"])
                    continue
                add(vs, (bs is not None and n % bs != 0) or rows >= 2, "sample", case)
            case = {"op": "salp", "n": n, "rows": rows}
            if only and only != case:
                continue
            vs, info = check_salp(d, obj, cfg, n, rows, seed)
            if info.get("skip"):
                bump(res["skipped"], info["skip"])
                continue
            add(vs, rows >= 2, "sample_and_log_prob", case)
        case = {"op": "log_prob", "rows": max(rows, 1)}
        if not only or only == case:
            add(check_log_prob(d, obj, cfg, max(rows, 1), seed), True, "log_prob", case)
    case = {"op": "illegal"}
    if not only or only == case:
        add(check_illegal(d, obj, cfg, seed), True, "illegal-arguments", case)
    if not res["samples"]:
        res["samples"].append({"subject": dname, "cfg": cfg, "call": "sample(5, context=3 rows, batch_size=2)"})
    return vio


def units(tier, seed):
    k = 2 if tier == "quick" else 3
    return [(name, cfg, seed) for name, d in DC.DSUBJECTS.items() if d.torch_tensor_api for cfg in DC.enum_configs(d, k)]


def run_unit(unit):
    name, cfg, seed = unit
    res = new_result()
    res["violations"].extend(run_subject(name, cfg, seed, res))
    return res


def replay(case):
    res = new_result()
    only = {k: v for k, v in case.items() if k not in ("subject", "cfg", "seed")}
    return run_subject(case["subject"], case["cfg"], case["seed"], res, only=only)
