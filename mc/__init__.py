"""Bounded-exhaustive model checking of nflows (see /verif/DESIGN.md)."""
