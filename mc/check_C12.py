"""C12 -- batch items are evaluated independently in evaluation mode (E1 product explorer).

For every subject x configuration x pattern a pool of distinct rows (with distinct context rows) is
fixed and *all* non-empty ordered batches with repetition up to the length bound are evaluated;
row i of every result must equal the batch-size-1 evaluation of that row.
"""
import itertools

import numpy as np
import torch

from mc import catalog as C
from mc import dcatalog as DC
from mc.common import bump, new_result
from mc.harness import build_case, dev_signature, knots_for
from mc.numerics import base_row, cells_for
from mc.params import pat_tensor

PROPERTY = "C12"
RULE = (
    "transforms: subject x config (<=1 deviation; thorough <=2) x pattern, eval mode, float64; pool of 3 (thorough 4) distinct rows "
    "(generic interior, a row with one coordinate on a special cell -- outside the spline tails / on a knot (zero pattern) / on an "
    "end-point --, a second generic row[, a mirrored row]) each with its own context row; ALL ordered batches with repetition of "
    "length <=3 (39; thorough <=4: 340) in forward and inverse direction. Distributions and flows: log_prob and transform_to_noise "
    "on all such batches (the last pool row is a far-away point, x60, so that batch-wide stabilisers are seen). Non-trivial = the batch contains >=2 different pool rows."
)
ASSUMPTIONS = [
    "agreement to 1e-7*scale (float64; BLAS results differ by a few ulp between batch sizes and ill-conditioned solves / iterated autoregressive inverses amplify that up to 1e-9 relative, so bit-equality is not demanded; batch mixing gives O(1) differences)",
    "evaluation mode only (the property's scope)",
    "pool rows avoid conditioner-dependent knots except under the all-zero pattern (where knot positions do not depend on batch arithmetic)",
]


def bounds(tier, seed):
    return {"pool": 3 if tier == "quick" else 4, "max_batch": 3 if tier == "quick" else 4, "config_deviations": 1 if tier == "quick" else 2}


def pool_rows(s, cfg, m, pname, seed, D, dom, specials, npool):
    rows = [base_row(D, dom, seed), None, base_row(D, dom, seed + 5)]
    kn = knots_for(s, m, cfg, pname, seed) if pname == "zero" or s.kind == "spline" else None
    k1 = None
    if kn is not None:
        k = np.asarray(kn)
        k1 = k if k.ndim == 1 else k[0]
    cells = cells_for(dom, specials, k1)
    pref = ["beyond-special", "knot", "special", "end-point", "far", "interior"]
    cells.sort(key=lambda c: pref.index(c[1]) if c[1] in pref else 99)
    r = base_row(D, dom, seed + 2)
    r[0] = cells[0][0]
    if D > 1 and len(cells) > 1:
        r[-1] = cells[1][0]
    rows[1] = r
    # bounded domains: the third row sits a hair inside an end-point (one row exactly ON an end-point and one just inside it is
    # the combination a batch-wide min/max test gets wrong)
    lo, hi = s.domain(cfg)  # (the documented domain itself, not the margin-reduced one the numeric oracles use)
    if lo is not None and hi is not None and len(rows) >= 3:
        rows[2] = rows[2].copy()
        rows[2][0] = lo + 3e-7 * (hi - lo)
        if D > 1:
            rows[2][-1] = hi - 3e-7 * (hi - lo)
        rows[1] = rows[1].copy()
        rows[1][0] = lo
    if npool >= 4:
        r4 = base_row(D, dom, seed + 9)
        if len(cells) > 2:
            r4[D // 2] = cells[2][0]
        rows.append(r4)
    return rows[:npool]


def ctx_rows(s, cfg, n):
    cs = s.ctx_shape(cfg)
    if cs is None:
        return None
    return torch.stack([pat_tensor(cs, 5 + k, 0.7) for k in range(n)])


def batches(npool, maxlen):
    for L in range(1, maxlen + 1):
        for b in itertools.product(range(npool), repeat=L):
            yield b


_TIER = ["quick"]


def _own_rng(x):
    """the global RNG state before a call is a function of the call's input: a tree that draws random numbers in evaluation
    mode then gives different draws for a row alone and inside a batch, reproducibly"""
    import zlib

    torch.manual_seed(zlib.crc32(x.detach().contiguous().numpy().tobytes()))


def run_transform_case(sname, cfg, pname, seed, tier, res=None, only=None):
    vio = []
    _TIER[0] = tier
    try:
        s, m = build_case(sname, cfg, pname, seed)
    except Exception as e:
        if res is not None:
            bump(res["skipped"], "cannot-construct (C11's subject): %s" % type(e).__name__)
        return vio
    shape = s.shape(cfg)
    oshape = s.out_shape(cfg)
    D = int(np.prod(shape))
    npool = 3 if tier == "quick" else 4
    maxlen = 3 if tier == "quick" else 4
    xs = pool_rows(s, cfg, m, pname, seed, D, s.cell_domain(cfg), s.specials(cfg), npool)
    X = torch.tensor(np.stack(xs), dtype=torch.float64).reshape(npool, *shape)
    CT = ctx_rows(s, cfg, npool)
    sig = dev_signature(s, cfg)

    def call(fn, x, c):
        _own_rng(x)
        with torch.no_grad():
            return fn(x, c) if c is not None else fn(x)

    # singleton references (batch size 1)
    ref = {}
    for direction in ("forward", "inverse"):
        if direction == "inverse" and not s.has_inverse:
            continue
        src = X
        if direction == "inverse":
            # inputs of the inverse: the singleton forward images (in range by construction)
            if "forward" not in ref or any(r is None for r in ref["forward"]):
                continue
            src = torch.stack([r[0] for r in ref["forward"]]).reshape(npool, *oshape)
        lst = []
        for i in range(npool):
            try:
                y, ld = call(getattr(m, direction), src[i : i + 1], None if CT is None else CT[i : i + 1])
            except Exception as e:
                lst.append(None)
                continue
            if y.dim() < 1 or y.shape[0] != 1 or tuple(ld.shape) != (1,):
                # the library returned, but not one item per batch row: that is this property's business, not a skip
                vio.append(_v(sname, sig, direction, "row depends on the rest of the batch", cfg, pname, seed, (i,), "%s on a batch of one row returns outputs of shape %s and logabsdet of shape %s" % (direction, tuple(y.shape), tuple(ld.shape))))
                lst.append(None)
                continue
            lst.append((y[0].clone(), ld[0].clone()))
        ref[direction] = lst
        ref[direction + "_src"] = src
    # one object serves the whole enumeration (as a user's model would): a replay re-runs the same sequence of calls and keeps the
    # finding of the recorded batch, so that a defect that needs the earlier calls (state kept between calls) replays identically
    blist = list(batches(npool, maxlen))
    for direction in ("forward", "inverse"):
        if direction not in ref or any(r is None for r in ref[direction]):
            if direction in ref and not any(v["case"]["direction"] == direction for v in vio):
                # a row that cannot be evaluated alone: if the same rows evaluate together, the result depends on the batch
                # (batch size one is part of the property); if they fail together too, it is another property's subject
                src_ = ref[direction + "_src"]
                try:
                    call(getattr(m, direction), src_, CT)
                    together = True
                except Exception:
                    together = False
                if together:
                    i_bad = [i for i, r in enumerate(ref[direction]) if r is None][0]
                    vio.append(_v(sname, sig, direction, "row depends on the rest of the batch", cfg, pname, seed, (i_bad,), "%s raises on pool row %d alone but evaluates the same row inside the batch of all pool rows" % (direction, i_bad)))
                elif res is not None:
                    bump(res["skipped"], "singleton %s raises (C02/C17's subject)" % direction)
            continue
        src = ref[direction + "_src"]
        for b in blist:
            idx = torch.tensor(b)
            if res is not None:
                res["evaluations"] += 1
                res["states"] += 1
                res["transitions"] += 1
                res["traces"] += 1
                if len(set(b)) >= 2:
                    res["nontrivial"] += 1
            try:
                y, ld = call(getattr(m, direction), src[idx], None if CT is None else CT[idx])
            except Exception as e:
                vio.append(_v(sname, sig, direction, "batch raises %s" % type(e).__name__, cfg, pname, seed, b, "%s on batch %s raised %s: %s although every row evaluates alone" % (direction, list(b), type(e).__name__, str(e)[:100])))
                if res is not None:
                    bump(res["outcomes"], "%s:raises" % direction)
                continue
            bad = None
            if y.shape[0] != len(b) or ld.shape != (len(b),):
                bad = "result shapes %s / %s for batch size %d" % (tuple(y.shape), tuple(ld.shape), len(b))
            else:
                for pos, i in enumerate(b):
                    ry, rl = ref[direction][i]
                    sc = max(1.0, float(ry.abs().max()))
                    dy = float((y[pos] - ry).abs().max())
                    dl = abs(float(ld[pos] - rl))
                    decl = 1e-5 if s.kind == "umnn" else 0.0  # declared: bisection on [-20, 20] with 25 halvings (a flipped last comparison moves the result by 1.2e-6)
                    if not (dy <= 1e-7 * sc + decl) or not (dl <= 1e-7 * max(1.0, abs(float(rl))) + decl):
                        bad = "row %d of batch %s (pool row %d): outputs differ by %.3g, logabsdet by %.3g from the batch-size-1 evaluation" % (pos, list(b), i, dy, dl)
                        break
            if res is not None:
                bump(res["outcomes"], "%s:%s" % (direction, "violation" if bad else "ok"))
            if bad:
                vio.append(_v(sname, sig, direction, "row depends on the rest of the batch", cfg, pname, seed, b, "%s: %s" % (direction, bad)))
    if res is not None and not res["samples"]:
        res["samples"].append({"subject": sname, "cfg": cfg, "pattern": pname, "pool": [[float(v) for v in r] for r in xs], "batch": [0, 2, 1]})
    if only:
        vio = [v for v in vio if v["case"]["batch"] == list(only["batch"]) and v["case"]["direction"] == only["direction"]]
    return vio


def _v(sname, sig, direction, sym, cfg, pname, seed, b, msg):
    return {"key": "%s|%s|%s|%s" % (sname, sig, direction, sym), "case": {"kind": "transform", "subject": sname, "cfg": cfg, "pattern": pname, "seed": seed, "batch": list(b), "direction": direction, "tier": _TIER[0]},
            "msg": "%s cfg=%s pattern=%s: %s" % (sname, cfg, pname, msg)}


# ----------------------------------------------------------------------------- distributions / flows


def run_dist_case(dname, cfg, pname, seed, tier, res=None, only=None):
    vio = []
    _TIER[0] = tier
    d = DC.DSUBJECTS[dname]
    try:
        obj = DC.materialise(d, cfg, pname, seed)
    except Exception as e:
        if res is not None:
            bump(res["skipped"], "cannot-construct: %s" % type(e).__name__)
        return vio
    npool = 3 if tier == "quick" else 4
    maxlen = 3 if tier == "quick" else 4
    X = d.points(cfg, npool, seed)
    if not d.binary:
        # the last pool row is a far-away point (log-densities hundreds of nats below the others): a batch-wide
        # stabiliser (global max in a log-sum-exp, batch statistic) shows up as a row that depends on its neighbours
        X[npool - 1] = X[npool - 1] * 60.0
    CT = d.contexts(cfg, npool, seed)
    sig = DC.dev_signature(d, cfg)
    fns = [("log_prob", lambda x, c: obj.log_prob(x, context=c) if d.takes_context else obj.log_prob(x))]
    if d.is_flow:
        fns.append(("transform_to_noise", lambda x, c: obj.transform_to_noise(x, context=c)))
    for name, fn in fns:
        refs = []
        ok = True
        for i in range(npool):
            try:
                with torch.no_grad():
                    _own_rng(X[i : i + 1])
                    refs.append(fn(X[i : i + 1], None if CT is None else CT[i : i + 1])[0].clone())
            except Exception:
                ok = False
                break
        if not ok:
            if res is not None:
                bump(res["skipped"], "singleton %s raises (C05/C18's subject)" % name)
            continue
        blist = list(batches(npool, maxlen))
        for b in blist:
            idx = torch.tensor(b)
            if res is not None:
                res["evaluations"] += 1
                res["states"] += 1
                res["transitions"] += 1
                res["traces"] += 1
                if len(set(b)) >= 2:
                    res["nontrivial"] += 1
            try:
                with torch.no_grad():
                    _own_rng(X[idx])
                    out = fn(X[idx], None if CT is None else CT[idx])
            except Exception as e:
                vio.append({"key": "%s|%s|%s|batch raises %s" % (dname, sig, name, type(e).__name__), "case": {"kind": "dist", "subject": dname, "cfg": cfg, "pattern": pname, "seed": seed, "batch": list(b), "direction": name, "tier": _TIER[0]},
                            "msg": "%s cfg=%s: %s on batch %s raised %s: %s although every row evaluates alone" % (dname, cfg, name, list(b), type(e).__name__, str(e)[:100])})
                continue
            bad = None
            if out.shape[0] != len(b):
                bad = "result has %d rows for a batch of %d" % (out.shape[0], len(b))
            else:
                for pos, i in enumerate(b):
                    fin = torch.isfinite(refs[i])
                    if not bool(fin.all()):
                        # non-finite alone (far row beyond the dtype): only the finiteness pattern is compared
                        if not torch.equal(fin, torch.isfinite(out[pos])):
                            bad = "row %d of batch %s (pool row %d): finite entries differ from the batch-size-1 evaluation" % (pos, list(b), i)
                            break
                        continue
                    sc = max(1.0, float(refs[i].abs().max()))
                    dd = float((out[pos] - refs[i]).abs().max())
                    if not dd <= 1e-7 * sc:
                        bad = "row %d of batch %s (pool row %d) differs by %.3g from the batch-size-1 evaluation" % (pos, list(b), i, dd)
                        break
            if res is not None:
                bump(res["outcomes"], "%s:%s" % (name, "violation" if bad else "ok"))
            if bad:
                vio.append({"key": "%s|%s|%s|row depends on the rest of the batch" % (dname, sig, name), "case": {"kind": "dist", "subject": dname, "cfg": cfg, "pattern": pname, "seed": seed, "batch": list(b), "direction": name, "tier": _TIER[0]},
                            "msg": "%s cfg=%s pattern=%s: %s: %s" % (dname, cfg, pname, name, bad)})
        # two leading batch dimensions (a mesh of points): where the object accepts such an input, entry (i, j) must be the
        # value of the corresponding row evaluated alone
        if CT is None and name == "log_prob" and npool >= 3:
            b = (0, 1, 2, 0)
            try:
                with torch.no_grad():
                    out2 = fn(X[torch.tensor(b)].reshape(2, 2, *X.shape[1:]), None)
            except Exception:
                out2 = None
            if out2 is not None and tuple(out2.shape) == (2, 2):
                if res is not None:
                    res["evaluations"] += 1
                    res["states"] += 1
                    res["transitions"] += 1
                    res["traces"] += 1
                    res["nontrivial"] += 1
                flat = out2.reshape(-1)
                for pos, i in enumerate(b):
                    if bool(torch.isfinite(refs[i]).all()) and not float((flat[pos] - refs[i]).abs().max()) <= 1e-7 * max(1.0, float(refs[i].abs().max())):
                        vio.append({"key": "%s|%s|%s|row depends on the rest of the batch" % (dname, sig, name + ":mesh"), "case": {"kind": "dist", "subject": dname, "cfg": cfg, "pattern": pname, "seed": seed, "batch": [-1], "direction": name, "tier": _TIER[0]},
                                    "msg": "%s cfg=%s pattern=%s: log_prob of a 2x2 mesh of points: entry %d (pool row %d) differs by %.3g from the batch-size-1 evaluation" % (dname, cfg, pname, pos, i, float((flat[pos] - refs[i]).abs().max()))})
                        break
    if only:
        vio = [v for v in vio if v["case"]["batch"] == list(only["batch"]) and v["case"]["direction"] == only["direction"]]
    return vio


def units(tier, seed):
    k = 1 if tier == "quick" else 2
    us = [("t", name, cfg, tier, seed) for name, s in C.SUBJECTS.items() for cfg in C.enum_configs(s, k)]
    us += [("d", name, cfg, tier, seed) for name, d in DC.DSUBJECTS.items() if d.torch_tensor_api for cfg in DC.enum_configs(d, k)]
    return us


def run_unit(unit):
    kind, name, cfg, tier, seed = unit
    res = new_result()
    if kind == "t":
        for pname in C.SUBJECTS[name].patterns:
            res["violations"].extend(run_transform_case(name, cfg, pname, seed, tier, res))
    else:
        for pname in DC.DSUBJECTS[name].patterns:
            res["violations"].extend(run_dist_case(name, cfg, pname, seed, tier, res))
    return res


def replay(case):
    tier = case.get("tier") or ("thorough" if max(case["batch"]) >= 3 or len(case["batch"]) > 3 else "quick")
    if case["kind"] == "transform":
        return run_transform_case(case["subject"], case["cfg"], case["pattern"], case["seed"], tier, None, only=case)
    return run_dist_case(case["subject"], case["cfg"], case["pattern"], case["seed"], tier, None, only=case)
