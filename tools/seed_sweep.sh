#!/bin/bash
# seed_sweep.sh "<seeds>" : every registered check, quick tier, under each seed; prints only non-clean runs + a summary
cd "$(dirname "$0")/.."
bad=0
for seed in ${1:-1 2 3 4}; do
  for pid in $(/venv/bin/python -c "import json; print(' '.join(c['property_id'] for c in json.load(open('MANIFEST.json'))['checks']))"); do
    out=$(VERIF_SEED=$seed VERIF_EVIDENCE_DIR=/tmp/mut/sweep_evidence /venv/bin/python -m mc.check $pid --tier quick 2>&1); rc=$?
    if [ $rc -ne 0 ]; then bad=$((bad+1)); echo "SEED=$seed $pid rc=$rc"; echo "$out" | grep -E "^VIOLATION-DETAIL|HARNESS" | head -5 | cut -c1-600; fi
  done
  echo "seed $seed done"
done
echo "non-clean runs: $bad"
