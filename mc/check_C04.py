"""C04 -- samples and densities of a flow agree, row by row (E3 programs + RNG seam).

flows x bases x context rows x embedding x num_samples with torch.randn owned by a seam that injects
coordinate-tagged lattice noise; exact (non-statistical) oracles: returned log-probs equal log_prob
of the returned samples under the right context row, transform_to_noise recovers the injected noise
item i*n+j, the sampler asked for exactly rows*n items, and for 1-D flows the samples produced from
the quantile lattice sit at the matching quantiles of the quadrature CDF of exp(log_prob).
"""
from unittest import mock

import numpy as np
import torch

from mc import dcatalog as DC
from mc.common import bump, new_result
from mc.quad import cdf_1d

PROPERTY = "C04"
RULE = (
    "flow subjects (Flow over 4 transform programs x 3 bases x context {raw, none, embedded}; MaskedAutoregressiveFlow; SimpleRealNVP) x config (<=2 deviations; thorough <=3) x "
    "pattern pat1 x context rows {1,2,3} (or none) x num_samples {1,2,3,5}: sample_and_log_prob and sample under the tagging/lattice randn seam, float64. For 1-feature flows "
    "additionally the push-forward identity on a 32-point (thorough 128) quantile lattice per context row. Non-trivial = >=2 context rows or num_samples >= 2."
)
ASSUMPTIONS = [
    "the randn seam returns float64 noise in the shape the library asks for; item k of a call is tagged (distinct values), so pairing errors (tiling instead of row repetition, wrong reshape) are exact mismatches, not statistical deviations",
    "push-forward identity: with z_k = Phi^-1((k+1/2)/m) injected, F(x_k) = (k+1/2)/m (or its mirror image for a decreasing map), F = quadrature CDF of exp(log_prob); tolerance 2e-4",
    "together with C03 (normalised, correct change of variables) the pairing identities imply the distributional claim in any dimension; it is checked directly only for 1-feature flows",
]

NS = (1, 2, 3, 5)


def bounds(tier, seed):
    return {"num_samples": list(NS), "context_rows": [1, 2, 3], "lattice": 32 if tier == "quick" else 128}


class Seam:
    def __init__(self, mode="tag", m=32, dtype=torch.float64):
        self.dtype = dtype
        self.calls = []
        self.items = []
        self.mode = mode
        self.m = m
        self.k = 0

    def randn(self, *size, **kw):
        if len(size) == 1 and isinstance(size[0], (tuple, list, torch.Size)):
            size = tuple(size[0])
        n = int(size[0])
        ev = tuple(size[1:])
        E = int(np.prod(ev)) if ev else 1
        self.calls.append(tuple(size))
        out = torch.empty(n, E, dtype=torch.float64)
        for r in range(n):
            if self.mode == "tag":
                base = -2.2 + 4.4 * ((self.k * 0.6180339887498949 + 0.31) % 1.0)
                out[r] = base + 0.017 * torch.arange(E, dtype=torch.float64)
            else:
                q = ((self.k % self.m) + 0.5) / self.m
                out[r] = float(torch.special.ndtri(torch.tensor(q, dtype=torch.float64)))
            self.items.append(out[r].clone())
            self.k += 1
        return out.reshape(n, *ev).to(self.dtype)


def pairing_case(dname, cfg, rows, n, seed):
    out = []
    d = DC.DSUBJECTS[dname]
    # the MADE mixture's sampler allocates default-dtype (float32) buffers itself: flows on that base are run in float32
    dt = torch.float32 if cfg.get("base") == "mog" else torch.float64
    eq_tol = 1e-4 if dt == torch.float32 else 1e-9
    obj = DC.materialise(d, cfg, "pat1", seed, dtype=dt)
    es = d.event_shape(cfg)
    has_ctx = d.ctx_shape(cfg) is not None
    ctx = d.contexts(cfg, rows, seed, dtype=dt) if has_ctx else None
    R = rows if has_ctx else 1
    lead = (R, n) if has_ctx else (n,)
    sm = Seam("tag", dtype=dt)
    try:
        with mock.patch.object(torch, "randn", sm.randn), torch.no_grad():
            s, lp = obj.sample_and_log_prob(n, context=ctx)
    except NotImplementedError:
        return None  # the base distribution does not offer sampling (DiagonalNormal)
    except Exception as e:
        return [("sample_and_log_prob", "raises %s" % type(e).__name__, "sample_and_log_prob(%d, context=%s): %s: %s" % (n, None if ctx is None else "%d rows" % R, type(e).__name__, str(e)[:120]))]
    if tuple(s.shape) != lead + tuple(es) or tuple(lp.shape) != lead:
        return [("sample_and_log_prob", "wrong shapes", "samples %s log_prob %s, documented %s / %s" % (tuple(s.shape), tuple(lp.shape), lead + tuple(es), lead))]
    base = cfg.get("base", "standard")
    if base != "mog" and (sum(c[0] for c in sm.calls) != R * n or any(tuple(c[1:]) != tuple(es) for c in sm.calls)):
        out.append(("sampler", "noise not drawn once per (context row, draw)", "randn was called with sizes %s; expected %d items of event shape %s in total" % (sm.calls, R * n, tuple(es))))
    flat = s.reshape(R * n, *es)
    cflat = None if ctx is None else ctx.repeat_interleave(n, dim=0)
    with torch.no_grad():
        lp2 = obj.log_prob(flat, context=cflat).reshape(lead)
    dl = float((lp - lp2).abs().max())
    if not dl <= eq_tol * (1 + float(lp2.abs().max())):
        out.append(("sample_and_log_prob", "returned log_prob is not log_prob(sample | its context row)", "sample_and_log_prob(%d, %s): returned log-probs differ from log_prob(sample[i,j], context[i]) by %.3g" % (n, None if ctx is None else "%d rows" % R, dl)))
    # (b) noise recovery: item i*n+j
    with torch.no_grad():
        u = obj.transform_to_noise(flat, context=cflat).reshape(R * n, -1)
    Z = torch.stack(sm.items[: R * n]) if len(sm.items) >= R * n else None
    if Z is not None and not (base == "mog" and es != (1,)):
        if base == "standard":
            dz = float((u.double() - Z).abs().max())
            if not dz <= 1e-7 * (1 + float(Z.abs().max())):
                out.append(("transform_to_noise", "does not recover the injected noise item of (context row i, draw j)", "transform_to_noise(sample[i,j], context[i]) differs from injected item i*n+j by %.3g (n=%d, rows=%s)" % (dz, n, R)))
        elif n >= 3:
            # conditional base: u = mean_i + std_i * z  ->  (u_ij - u_i0) / (z_ij - z_i0) is the same for all j (per coordinate)
            U, ZZ = u.reshape(R, n, -1).double(), Z.reshape(R, n, -1)
            ratio = (U[:, 1:] - U[:, :1]) / (ZZ[:, 1:] - ZZ[:, :1])
            spread = float((ratio - ratio[:, :1]).abs().max())
            if not spread <= (1e-7 if dt == torch.float64 else 1e-3) * (1 + float(ratio.abs().max())):
                out.append(("transform_to_noise", "noise of a block is not affine in the injected items of that block", "conditional base: base samples of block i are not mean_i + std_i * (injected items i*n .. i*n+n-1); spread of implied std %.3g" % spread))
    # plain sample(): same pairing
    sm2 = Seam("tag", dtype=dt)
    try:
        with mock.patch.object(torch, "randn", sm2.randn), torch.no_grad():
            s2 = obj.sample(n, context=ctx)
        if tuple(s2.shape) != lead + tuple(es):
            out.append(("sample", "wrong shape", "sample shape %s" % (tuple(s2.shape),)))
        else:
            if base == "standard" and len(sm2.items) >= R * n:
                with torch.no_grad():
                    u2 = obj.transform_to_noise(s2.reshape(R * n, *es), context=cflat).reshape(R * n, -1)
                dz2 = float((u2 - torch.stack(sm2.items[: R * n])).abs().max())
                if not dz2 <= 1e-7 * (1 + float(u2.abs().max())):
                    out.append(("sample", "block i is not generated under context row i", "sample(%d, %d context rows): transform_to_noise(sample[i,j], context[i]) differs from injected item i*n+j by %.3g" % (n, R, dz2)))
            if not torch.equal(s2, s):
                out.append(("sample", "sample() and sample_and_log_prob() disagree under the same noise", "max difference %.3g" % float((s2 - s).abs().max())))
    except Exception as e:
        out.append(("sample", "raises %s" % type(e).__name__, "sample(%d): %s: %s" % (n, type(e).__name__, str(e)[:100])))
    return out


def pushforward_case(dname, cfg, rows, seed, m):
    """1-feature flows: lattice noise -> samples at the matching quantiles of the quadrature CDF"""
    out = []
    d = DC.DSUBJECTS[dname]
    dt = torch.float32 if cfg.get("base") == "mog" else torch.float64
    obj = DC.materialise(d, cfg, "pat1", seed, dtype=dt)
    has_ctx = d.ctx_shape(cfg) is not None
    ctx = d.contexts(cfg, rows, seed, dtype=dt) if has_ctx else None
    R = rows if has_ctx else 1
    sm = Seam("lattice", m, dtype=dt)
    with mock.patch.object(torch, "randn", sm.randn), torch.no_grad():
        s = obj.sample(m, context=ctx)
    s = s.reshape(R, m).double()
    target = (np.arange(m) + 0.5) / m
    for r in range(R):
        c = None if ctx is None else ctx[r : r + 1]

        def lp1(t, c=c):
            cc = None if c is None else c.expand(t.shape[0], *c.shape[1:])
            return obj.log_prob(t[:, None].to(dt), context=cc).double()

        xs = s[r].numpy()
        order = np.argsort(xs)
        F, tot = cdf_1d(lp1, xs[order], n=2 ** 17, xmax=1e5)
        if abs(tot - 1) > (1e-4 if dt == torch.float64 else 1e-3):
            out.append(("pushforward", "density not normalised (C03's subject)", "total mass %.6g" % tot))
            return out
        inc = bool(np.all(np.diff(order) > 0))
        dec = bool(np.all(np.diff(order) < 0))
        if not (inc or dec):
            out.append(("pushforward", "samples are not a monotone image of the noise lattice", "context row %d: order of samples %s" % (r, order.tolist()[:8])))
            return out
        err = float(np.max(np.abs(F - target)))
        if err > (2e-4 if dt == torch.float64 else 2e-3):
            out.append(("pushforward", "samples do not follow exp(log_prob)", "context row %d: with the %d normal mid-quantiles injected, the sorted samples sit at CDF values off by up to %.3g" % (r, m, err)))
            return out
    return out


def units(tier, seed):
    k = 2 if tier == "quick" else 3
    us = []
    for name in ("Flow", "MaskedAutoregressiveFlow", "SimpleRealNVP"):
        for cfg in DC.enum_configs(DC.DSUBJECTS[name], k):
            us.append((name, cfg, tier, seed))
    return us


def run_unit(unit):
    name, cfg, tier, seed = unit
    res = new_result()
    d = DC.DSUBJECTS[name]
    sig = DC.dev_signature(d, cfg)
    has_ctx = d.ctx_shape(cfg) is not None

    def add(vs, nontrivial, label, case):
        res["evaluations"] += 1
        res["states"] += 1
        res["transitions"] += 4
        res["traces"] += 1
        if nontrivial:
            res["nontrivial"] += 1
        bump(res["outcomes"], "%s:%s" % (label, "violation" if vs else "ok"))
        for cell, sym, msg in vs:
            res["violations"].append({"key": "%s|%s|%s|%s" % (name, sig, cell, sym), "case": dict(case, subject=name, cfg=cfg, seed=seed), "msg": "%s cfg=%s: %s" % (name, cfg, msg)})

    for rows in ((1, 2, 3) if has_ctx else (0,)):
        for n in NS:
            try:
                vs = pairing_case(name, cfg, rows, n, seed)
            except Exception as e:
                bump(res["skipped"], "cannot-construct/evaluate (other properties): %s" % type(e).__name__)
                continue
            if vs is None:
                bump(res["skipped"], "sampling not offered by the base distribution")
                continue
            add(vs, rows >= 2 or n >= 2, "pairing", {"op": "pairing", "rows": rows, "n": n})
        if d.event_shape(cfg) == (1,) and cfg.get("base") != "diag":
            m = 32 if tier == "quick" else 128
            try:
                vs = pushforward_case(name, cfg, rows, seed, m)
            except Exception as e:
                bump(res["skipped"], "pushforward not evaluable: %s" % type(e).__name__)
                continue
            add(vs, True, "pushforward", {"op": "pushforward", "rows": rows, "m": m})
    if not res["samples"]:
        res["samples"].append({"subject": name, "cfg": cfg, "call": "sample_and_log_prob(3, context=2 rows)"})
    return res


def replay(case):
    name, cfg, seed = case["subject"], case["cfg"], case["seed"]
    sig = DC.dev_signature(DC.DSUBJECTS[name], cfg)
    if case["op"] == "pairing":
        vs = pairing_case(name, cfg, case["rows"], case["n"], seed) or []
    else:
        vs = pushforward_case(name, cfg, case["rows"], seed, case["m"])
    return [{"key": "%s|%s|%s|%s" % (name, sig, cell, sym), "case": case, "msg": msg} for cell, sym, msg in vs]
