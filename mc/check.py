"""CLI:  /venv/bin/python -m mc.check C07 --tier quick|thorough [--replay file]

Exit 0: property held on everything explored (KNOWN-FINDING lines allowed).
Exit 1: `VIOLATION property=<id> replay=<path>` printed for a violation not listed as known.
Exit 3: harness error (no verdict).
"""
import argparse
import os
import sys


def main():
    ap = argparse.ArgumentParser()
    ap.add_argument("property")
    ap.add_argument("--tier", default=os.environ.get("VERIF_TIER", "quick"), choices=["quick", "thorough"])
    ap.add_argument("--seed", type=int, default=int(os.environ.get("VERIF_SEED", "0") or 0))
    ap.add_argument("--replay", default=None)
    a = ap.parse_args()
    from mc import common

    sys.exit(common.main_check("mc.check_" + a.property, a.tier, a.seed, a.replay))


if __name__ == "__main__":
    main()
